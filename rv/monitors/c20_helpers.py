"""C20 part B: the integrand helpers of skfem.helpers (NumPy) and skfem.autodiff.helpers (JAX) against
elementary definitions (numpy.linalg, explicit index sums written with slicing/broadcasting, not with the
einsum strings the library uses), against each other, and on real interpolated polynomial fields.

Pitfalls (library right, naive oracle wrong):
  * `identity(w)` deduces N from `w.shape[-3]` and always assumes exactly two trailing axes (cells x points);
    it is judged in that shape only.  `inner` likewise dispatches on `len(shape)` with two trailing axes.
  * NumPy `mul` is documented matrix x vector; matrix x matrix with equal trailing axes works through ellipsis
    broadcasting and is compared too (JAX `mul` has an explicit branch for it).
  * NumPy `div` of a 1-D field on a one-cell mesh returns shape (nq,) instead of (1, nq) (einsum 'ii...' happens
    to succeed on (1, 1, nq)); the values are right and it broadcasts, so shapes are compared up to
    broadcasting for this helper.
  * the definitions are bilinear index sums: on complex input nothing is conjugated (family helpers-dtypes compares
    against the plain sums in complex128); float32 input promises single precision only (rtol 1e-5).
  * the JAX `det` / `eye` have no branch for field objects; `det` works by duck typing, `eye(JaxDiscreteField, n)`
    raises ValueError - tolerated and counted, a returned value must be right.
  * Cramer's rule loses cond(A) digits: matrices for `inv` are drawn with cond <= 50 and the error is measured
    relative to max|inv(A)| per matrix, `det` relative to the Hadamard bound per matrix.
"""
from __future__ import annotations

import inspect

import numpy as np

from ..engine import Skip
from ..gen import elements as EL
from ..gen import meshes as G

RT = 1e-13


# ------------------------------------------------------------------ inputs
TRAILING = [(), (5,), (4, 3), (1, 1), (2, 3, 2), (7, 1), (3, 3), (2,)]
LAYOUTS = ["C", "F", "strided", "reversed", "readonly"]


def arr(rng, shape, layout="C"):
    shape = tuple(shape)
    if layout == "strided" and len(shape) >= 1:
        big = rng.standard_normal(shape[:-1] + (2 * shape[-1],))
        return big[..., ::2]
    a = rng.standard_normal(shape)
    if layout == "F":
        return np.asfortranarray(a)
    if layout == "reversed" and len(shape) >= 1:
        return a[::-1]
    if layout == "readonly":
        a.setflags(write=False)
    return a


def well_conditioned(rng, n, tr, layout):
    A = arr(rng, (n, n) + tr, layout)
    M = np.moveaxis(A, (0, 1), (-2, -1))
    bad = np.linalg.cond(M) > 50
    if np.any(bad):
        A = np.array(A)
        M = np.moveaxis(A, (0, 1), (-2, -1))
        # replace ill-conditioned samples by a shifted orthogonal-ish matrix
        Q = np.linalg.qr(rng.standard_normal((n, n)))[0]
        M[bad] = Q * rng.uniform(0.5, 2.0)
    return A


def mv(A):
    return np.moveaxis(A, (0, 1), (-2, -1))


# ------------------------------------------------------------------ definitions (reference side)
def d_dot(u, v):
    return (u * v).sum(0), (np.abs(u) * np.abs(v)).sum(0)


def d_ddot(A, B):
    return (A * B).sum((0, 1)), (np.abs(A) * np.abs(B)).sum((0, 1))


def d_dddot(A, B):
    return (A * B).sum((0, 1, 2)), (np.abs(A) * np.abs(B)).sum((0, 1, 2))


def d_prod2(u, v):
    r = u[:, None] * v[None, :]
    return r, np.abs(r)


def d_prod3(u, v, w):
    r = u[:, None, None] * v[None, :, None] * w[None, None, :]
    return r, np.abs(r)


def d_matvec(A, x):
    n = A.shape[0]
    r = sum(A[:, j] * x[j][None] for j in range(n))
    s = sum(np.abs(A[:, j]) * np.abs(x[j][None]) for j in range(n))
    return r, s


def d_matmat(A, B):
    r = np.moveaxis(np.matmul(mv(A), mv(B)), (-2, -1), (0, 1))
    s = np.moveaxis(np.matmul(np.abs(mv(A)), np.abs(mv(B))), (-2, -1), (0, 1))
    return r, s


def d_trace(A):
    return np.trace(A, axis1=0, axis2=1), np.abs(np.trace(np.abs(A), axis1=0, axis2=1))


def d_transpose(A):
    r = np.swapaxes(A, 0, 1)
    return r, np.abs(r)


def d_eye(w, n):
    w = np.asarray(w, dtype=float)
    r = np.zeros((n, n) + w.shape)
    for i in range(n):
        r[i, i] = w
    return r, np.abs(r)


def d_det(A):
    r = np.linalg.det(mv(A))
    had = np.prod(np.sqrt((A ** 2).sum(1)), axis=0)   # Hadamard bound: product of row norms
    return r, had


def d_inv(A):
    r = np.moveaxis(np.linalg.inv(mv(A)), (-2, -1), (0, 1))
    s = np.abs(r).max((0, 1)) * np.ones_like(r)
    return r, s * 50.0   # cond <= 50 by construction


def d_cross(A, B):
    if A.shape[0] == 2:
        return A[0] * B[1] - A[1] * B[0], np.abs(A[0] * B[1]) + np.abs(A[1] * B[0])
    r = np.cross(A, B, axis=0)
    s = np.sqrt((A ** 2).sum(0)) * np.sqrt((B ** 2).sum(0)) * np.ones_like(r)
    return r, s


def compare(ctx, monitor, label, got, ref, scale, mech, rtol=RT, broadcast_ok=False, **detail):
    """Pointwise |got - ref| <= rtol * scale (scale is the natural magnitude per entry)."""
    try:
        g = np.asarray(got, dtype=float)
    except Exception as e:
        ctx.check(monitor, False, mech=mech, helper=label, problem="not-an-array:" + repr(e)[:80], **detail)
        return False
    ref = np.asarray(ref, dtype=float)
    shape_ok = g.shape == ref.shape
    if not shape_ok and broadcast_ok:
        try:
            shape_ok = np.broadcast_shapes(g.shape, ref.shape) == ref.shape
        except ValueError:
            shape_ok = False
    if not shape_ok:
        ctx.check(monitor, False, mech=mech, helper=label, problem="shape", got_shape=g.shape, ref_shape=ref.shape,
                  **detail)
        return False
    err = np.abs(g - ref)
    tol = rtol * np.asarray(scale, dtype=float)
    ok = bool(np.all(err <= tol)) and bool(np.all(np.isfinite(g)))
    if ok and err.size:
        with np.errstate(divide="ignore", invalid="ignore"):
            r = np.nanmax(np.where(scale > 0, err / np.where(scale > 0, scale, 1), 0.0)) if np.size(scale) else 0.0
        if r > ctx.max_err.get(monitor, 0.0):
            ctx.max_err[monitor] = float(r)
    return ctx.check(monitor, ok, mech=mech, helper=label, max_err=lambda: float(np.nanmax(err)) if err.size else 0.0,
                     max_ref=lambda: float(np.abs(ref).max()) if ref.size else 0.0,
                     got_head=lambda: g.ravel()[:6], ref_head=lambda: ref.ravel()[:6], **detail)


# ------------------------------------------------------------------ tables of raw-array helpers
def raw_cases(rng, n, tr, layout, names):
    """(label, helper name, args, (ref, scale)) for the helpers acting on raw arrays."""
    a = lambda *shape: arr(rng, shape + tr, layout)
    out = []
    u, v, w3 = a(n), a(n), a(n)
    A, B = a(n, n), a(n, n)
    T3, S3 = a(n, n, n), a(n, n, n)
    out.append(("dot", "dot", (u, v), d_dot(u, v)))
    out.append(("ddot", "ddot", (A, B), d_ddot(A, B)))
    out.append(("dddot", "dddot", (T3, S3), d_dddot(T3, S3)))
    out.append(("prod-2", "prod", (u, v), d_prod2(u, v)))
    out.append(("prod-3", "prod", (u, v, w3), d_prod3(u, v, w3)))
    out.append(("mul-matvec", "mul", (A, u), d_matvec(A, u)))
    out.append(("mul-matmat", "mul", (A, B), d_matmat(A, B)))
    if len(tr) == 2:
        C = arr(rng, (n, n), "C")   # constant coefficient matrix applied to a field
        Cb = C.reshape((n, n) + (1,) * len(tr)) * np.ones((n, n) + tr)
        out.append(("mul-const-matvec", "mul", (C, u), d_matvec(Cb, u)))
    out.append(("trace", "trace", (A,), d_trace(A)))
    out.append(("transpose", "transpose", (A,), d_transpose(A)))
    wv = a()
    out.append(("eye", "eye", (wv, n), d_eye(wv, n)))
    out.append(("eye-scalar", "eye", (2.5, n), d_eye(2.5, n)))
    out.append(("det", "det", (A,), d_det(A)))
    Aw = well_conditioned(rng, n, tr, layout)
    out.append(("inv", "inv", (Aw,), d_inv(Aw)))
    out.append(("cross", "cross", (u, v), d_cross(u, v)))
    return [c for c in out if c[1] in names]


NP_RAW = {"dot", "ddot", "dddot", "prod", "mul", "trace", "transpose", "eye", "det", "inv", "cross"}
JAX_RAW = {"dot", "ddot", "dddot", "prod", "mul", "trace", "transpose", "eye", "det"}
NP_FIELD = {"grad", "div", "curl", "d", "sym_grad", "dd", "ddd", "dddd", "inner", "jump", "identity"}
JAX_FIELD = {"grad", "sym_grad", "div", "dd"}
JAX_ACCEPTS_FIELD = {"dot", "ddot", "dddot", "prod", "mul", "trace", "transpose"}   # explicit isinstance branches


def det_defect_matches(A, got):
    """Predicate for the reproduced defect A13: 3x3 and got == det - 2 A01 A12 A20 (doubled minus sign)."""
    if A.shape[0] != 3:
        return False
    ref, had = d_det(A)
    model = ref - 2.0 * A[0, 1] * A[1, 2] * A[2, 0]
    g = np.asarray(got, dtype=float)
    return g.shape == model.shape and bool(np.all(np.abs(g - model) <= 1e-12 * had)) \
        and bool(np.any(np.abs(model - ref) > 1e-9 * had))


def shape_case(k):
    n = 2 + (k % 2)
    tr = TRAILING[(k // 2) % len(TRAILING)]
    layout = LAYOUTS[(k // (2 * len(TRAILING))) % len(LAYOUTS)] if k >= 2 * len(TRAILING) else LAYOUTS[k % len(LAYOUTS)]
    return n, tr, layout


def fam_helpers_np(ctx, k):
    from skfem import helpers as NH
    rng = ctx.rng()
    n, tr, layout = shape_case(k)
    for label, name, args, (ref, scale) in raw_cases(rng, n, tr, layout, NP_RAW):
        keep = [np.array(x, copy=True) if isinstance(x, np.ndarray) else x for x in args]
        got = getattr(NH, name)(*args)
        compare(ctx, "helper-np-definition", label, got, ref, scale, mech=f"np-helper:{label}:{n}x{n}",
                n=n, trailing=tr, layout=layout)
        same = all(np.array_equal(x, y) for x, y in zip(args, keep) if isinstance(x, np.ndarray))
        ctx.check("helper-np-definition", same, mech=f"np-helper-mutates-argument:{label}", helper=label)
        ctx.nontrivial("np", label, n, len(tr))
        if name == "inv":
            ctx.reached(f"np-inv-{n}x{n}")
    if k < 3:
        ctx.sample({"module": "skfem.helpers", "n": n, "trailing": tr, "layout": layout,
                    "helpers": sorted(NP_RAW)}, per_family=2)


def fam_helpers_jax(ctx, k):
    import jax.numpy as jnp
    from skfem import helpers as NH
    from skfem.autodiff import helpers as JHm
    from skfem.autodiff import JaxDiscreteField
    rng = ctx.rng()
    n, tr, layout = shape_case(k)
    spelling = ("numpy", "jax", "field")[k % 3]
    for label, name, args, (ref, scale) in raw_cases(rng, n, tr, layout, JAX_RAW):
        def conv(x):
            if not isinstance(x, np.ndarray):
                return x
            if spelling == "jax":
                return jnp.asarray(x)
            if spelling == "field" and name in JAX_ACCEPTS_FIELD:
                return JaxDiscreteField(jnp.asarray(x))
            return x
        jargs = tuple(conv(x) for x in args)
        got = getattr(JHm, name)(*jargs)
        if name == "det":
            A = args[0]
            mech = (lambda A=A, got=got: "jax-det-3x3-doubled-minus" if det_defect_matches(A, got)
                    else f"jax-helper:{label}:{n}x{n}")
            ctx.reached(f"jax-det-{n}x{n}")
        else:
            mech = f"jax-helper:{label}:{n}x{n}"
        compare(ctx, "helper-jax-definition", label, got, ref, scale, mech=mech, n=n, trailing=tr, layout=layout,
                spelling=spelling)
        if label.startswith("mul-mat"):
            ctx.reached("jax-" + label)
        if label == "prod-3":
            ctx.reached("jax-prod-3")
        # the NumPy variant of the same name on the same input
        if hasattr(NH, name):
            ngot = getattr(NH, name)(*args)
            if name == "det":
                mech2 = (lambda A=args[0], got=got: "jax-det-3x3-doubled-minus" if det_defect_matches(A, got)
                         else f"jax-vs-np:{label}:{n}x{n}")
            else:
                mech2 = f"jax-vs-np:{label}:{n}x{n}"
            compare(ctx, "helper-jax-equals-np", label, got, ngot, scale, mech=mech2, n=n, trailing=tr, layout=layout)
        ctx.nontrivial("jax", label, n, len(tr))
    if k < 3:
        ctx.sample({"module": "skfem.autodiff.helpers", "n": n, "trailing": tr, "layout": layout,
                    "spelling": spelling, "helpers": sorted(JAX_RAW)}, per_family=2)


# ------------------------------------------------------------------ helpers that take fields
def levi_civita():
    e = np.zeros((3, 3, 3))
    e[0, 1, 2] = e[1, 2, 0] = e[2, 0, 1] = 1
    e[0, 2, 1] = e[2, 1, 0] = e[1, 0, 2] = -1
    return e


def synthetic_fields(ctx, rng, k):
    """DiscreteFields with random attribute arrays: the helper must return the documented combination."""
    from skfem import helpers as NH
    from skfem.element import DiscreteField
    from skfem.autodiff import helpers as JHm
    from skfem.autodiff import JaxDiscreteField
    nel, nq = int(rng.integers(1, 6)), int(rng.integers(1, 5))
    if k % 5 == 0:
        nel = 2   # grad of a 2-D scalar field is then (2, 2, nq): must still be dispatched by rank
    R = lambda *s: rng.standard_normal(s + (nel, nq))
    M = "helper-field-definition"
    for d in (2, 3):
        # vector H1 field: value (d,..), grad (d,d,..)
        val, g = R(d), R(d, d)
        u = DiscreteField(val, g)
        ju = JaxDiscreteField(val, g)
        compare(ctx, M, "grad", NH.grad(u), g, np.abs(g), mech="np-field:grad", rtol=0)
        compare(ctx, M, "d(grad)", NH.d(u), g, np.abs(g), mech="np-field:d", rtol=0)
        compare(ctx, M, "div(trace)", NH.div(u), *d_trace(g), mech="np-field:div-trace")
        ctx.reached("np-div-trace")
        compare(ctx, M, "sym_grad", NH.sym_grad(u), .5 * (g + np.swapaxes(g, 0, 1)), np.abs(g) + np.abs(np.swapaxes(g, 0, 1)),
                mech="np-field:sym_grad")
        if d == 2:
            compare(ctx, M, "curl(2d-vector)", NH.curl(u), g[1, 0] - g[0, 1], np.abs(g[1, 0]) + np.abs(g[0, 1]),
                    mech="np-field:curl-2d-vector")
            ctx.reached("np-curl-2d-vector")
        else:
            c = np.einsum("ijk,kj...->i...", levi_civita(), g)   # (curl u)_i = eps_ijk d_j u_k, grad[k, j] = d_j u_k
            compare(ctx, M, "curl(3d)", NH.curl(u), c, np.abs(g).sum((0, 1)) * np.ones_like(c), mech="np-field:curl-3d")
            ctx.reached("np-curl-3d")
        compare(ctx, "helper-jax-definition", "grad", JHm.grad(ju), g, np.abs(g), mech="jax-field:grad", rtol=0)
        compare(ctx, "helper-jax-definition", "div(trace)", JHm.div(ju), *d_trace(g), mech="jax-field:div-trace")
        compare(ctx, "helper-jax-definition", "sym_grad", JHm.sym_grad(ju), .5 * (g + np.swapaxes(g, 0, 1)),
                np.abs(g) + np.abs(np.swapaxes(g, 0, 1)), mech="jax-field:sym_grad")
        compare(ctx, "helper-jax-equals-np", "sym_grad", JHm.sym_grad(ju), NH.sym_grad(u), np.abs(g) + 1, mech="jax-vs-np:sym_grad")
        compare(ctx, "helper-jax-equals-np", "div(trace)", JHm.div(ju), NH.div(u), d_trace(g)[1], mech="jax-vs-np:div-trace")
        ctx.nontrivial("np-field", "vector", d)
        # scalar field: value (..), grad (d,..), hess (d,d,..), grad3, grad4
        sv, sg, sh, s3, s4 = R(), R(d), R(d, d), R(d, d, d), R(d, d, d, d)
        s = DiscreteField(sv, sg, None, None, sh, s3, s4)
        js = JaxDiscreteField(sv, sg, None, None, sh, s3, s4)
        compare(ctx, M, "dd", NH.dd(s), sh, np.abs(sh), mech="np-field:dd", rtol=0)
        compare(ctx, M, "ddd", NH.ddd(s), s3, np.abs(s3), mech="np-field:ddd", rtol=0)
        compare(ctx, M, "dddd", NH.dddd(s), s4, np.abs(s4), mech="np-field:dddd", rtol=0)
        compare(ctx, "helper-jax-definition", "dd", JHm.dd(js), sh, np.abs(sh), mech="jax-field:dd", rtol=0)
        compare(ctx, "helper-jax-equals-np", "dd", JHm.dd(js), NH.dd(s), np.abs(sh), mech="jax-vs-np:dd", rtol=0)
        if d == 2:
            compare(ctx, M, "curl(2d-scalar)", NH.curl(s), np.array([sg[1], -sg[0]]), np.abs(np.array([sg[1], sg[0]])),
                    mech="np-field:curl-2d-scalar", rtol=0)
            ctx.reached("np-curl-2d-scalar")
        else:
            try:
                NH.curl(s)
                raised = False
            except NotImplementedError:
                raised = True
            ctx.check(M, raised, mech="np-field:curl-3d-scalar-not-refused", helper="curl(3d-scalar)")
        # H(div) / H(curl) fields: attribute wins
        dv = R()
        hd = DiscreteField(val, None, dv)
        compare(ctx, M, "div(attr)", NH.div(hd), dv, np.abs(dv), mech="np-field:div-attr", rtol=0)
        compare(ctx, M, "d(div)", NH.d(hd), dv, np.abs(dv), mech="np-field:d", rtol=0)
        ctx.reached("np-div-attr")
        cv = R() if d == 2 else R(3)
        hc = DiscreteField(val, None, None, cv)
        compare(ctx, M, "curl(attr)", NH.curl(hc), cv, np.abs(cv), mech="np-field:curl-attr", rtol=0)
        compare(ctx, M, "d(curl)", NH.d(hc), cv, np.abs(cv), mech="np-field:d", rtol=0)
        ctx.reached("np-curl-attr")
        # inner: rank dispatch with two trailing axes, tuples for composite elements
        a0, b0 = R(), R()
        a1, b1 = R(d), R(d)
        a2, b2 = R(d, d), R(d, d)
        compare(ctx, M, "inner(scalar)", NH.inner(DiscreteField(a0), DiscreteField(b0)), a0 * b0, np.abs(a0 * b0),
                mech="np-field:inner-scalar")
        compare(ctx, M, "inner(vector)", NH.inner(DiscreteField(a1), b1), *d_dot(a1, b1), mech="np-field:inner-vector")
        compare(ctx, M, "inner(matrix)", NH.inner(a2, DiscreteField(b2)), *d_ddot(a2, b2), mech="np-field:inner-matrix")
        r = a0 * b0 + d_dot(a1, b1)[0] + d_ddot(a2, b2)[0]
        sc = np.abs(a0 * b0) + d_dot(a1, b1)[1] + d_ddot(a2, b2)[1]
        compare(ctx, M, "inner(tuple)", NH.inner((a0, a1, a2), (b0, b1, b2)), r, sc, mech="np-field:inner-tuple")
        # identity: N deduced from a vector / matrix field, or given
        I = d_eye(np.ones((nel, nq)), d)[0]
        compare(ctx, M, "identity(vector)", NH.identity(val), I, np.ones_like(I), mech="np-field:identity", rtol=0)
        compare(ctx, M, "identity(matrix)", NH.identity(g), I, np.ones_like(I), mech="np-field:identity", rtol=0)
        compare(ctx, M, "identity(scalar,N)", NH.identity(sv, d), I, np.ones_like(I), mech="np-field:identity", rtol=0)
        compare(ctx, M, "identity(scalar,N=)", NH.identity(sv, N=d), I, np.ones_like(I), mech="np-field:identity", rtol=0)
        # an explicit N is the size, whatever could be deduced from the field (3x3 tensors of a plane problem, 2x2 of a
        # 3-D one, 1x1)
        for N_ in sorted({1, 2, 3, 4} - {d}):
            IN = d_eye(np.ones((nel, nq)), N_)[0]
            for nm, arg in (("vector", val), ("matrix", g)):
                for how, got in ((f"identity({nm},{N_})", lambda: NH.identity(arg, N_)), (f"identity({nm},N={N_})", lambda: NH.identity(arg, N=N_))):
                    try:
                        out = got()
                    except Exception as ex:  # noqa: BLE001
                        ctx.check(M, False, mech="np-field:identity-explicit-N-raises", helper=how, error=repr(ex)[:120])
                        continue
                    if np.shape(out) != IN.shape:
                        ctx.check(M, False, mech="np-field:identity-explicit-N-ignored", helper=how, shape=np.shape(out), want=IN.shape)
                    else:
                        compare(ctx, M, how, out, IN, np.ones_like(IN), mech="np-field:identity-explicit-N", rtol=0)
        ctx.reached("identity:explicit-N-differs-from-the-field")
    try:
        NH.identity(R())
        raised = False
    except ValueError:
        raised = True
    ctx.check(M, raised, mech="np-field:identity-without-N-not-refused", helper="identity(scalar)")
    # 1-D: divergence of a scalar field is its derivative
    g1 = R(1)
    u1 = DiscreteField(R(), g1)
    compare(ctx, M, "div(1d)", NH.div(u1), g1[0], np.abs(g1[0]), mech="np-field:div-1d", rtol=0, broadcast_ok=True)
    ctx.reached("np-div-1d")
    # jump: (-1)^idx per argument on interior-facet forms, identity otherwise
    from skfem.assembly.form.form import FormExtraParams
    x1, x2, x3 = R(), R(2), R()
    for idx in ((0, 0, 0), (1, 0, 1), (0, 1, 1), (1, 1, 0)):
        w = FormExtraParams(idx=idx)
        out = NH.jump(w, x1, x2, x3)
        ok = isinstance(out, tuple) and len(out) == 3 and all(
            np.array_equal(o, (-1.) ** i * x) for o, i, x in zip(out, idx, (x1, x2, x3)))
        ctx.check(M, ok, mech="np-field:jump", helper="jump", idx=idx)
        o1 = NH.jump(FormExtraParams(idx=idx[:1]), x2)
        ctx.check(M, isinstance(o1, np.ndarray) and np.array_equal(o1, (-1.) ** idx[0] * x2), mech="np-field:jump-single",
                  helper="jump(single)", idx=idx[:1])
    out = NH.jump(FormExtraParams(), x1, x2)
    ctx.check(M, len(out) == 2 and out[0] is x1 and out[1] is x2, mech="np-field:jump-no-idx", helper="jump(no idx)")


def poly_field(rng, d, ncomp):
    """Quadratic polynomial(s) with small integer coefficients: value, gradient as callables of x (d, ...)."""
    a = rng.integers(-2, 3, size=(ncomp, d, d)).astype(float)
    b = rng.integers(-3, 4, size=(ncomp, d)).astype(float)
    c = rng.integers(-3, 4, size=(ncomp,)).astype(float)

    def val(x):
        return np.array([sum(a[i, j, l] * x[j] * x[l] for j in range(d) for l in range(d))
                         + sum(b[i, j] * x[j] for j in range(d)) + c[i] for i in range(ncomp)])

    def grad(x):   # [i, j] = d u_i / d x_j
        return np.array([[sum((a[i, j, l] + a[i, l, j]) * x[l] for l in range(d)) + b[i, j] + 0 * x[0]
                          for j in range(d)] for i in range(ncomp)])
    return val, grad


P2 = {"tri": "ElementTriP2", "quad": "ElementQuad2", "tet": "ElementTetP2", "hex": "ElementHex2", "line": "ElementLineP2"}


def real_fields(ctx, rng, k):
    """Helpers on interpolated quadratic fields with known derivatives: pins the index convention
    grad[i, j] = d u_i / d x_j on which div / curl / sym_grad rest, for both variants."""
    import skfem
    from skfem import helpers as NH
    from skfem.autodiff import helpers as JHm
    from skfem.autodiff import JaxDiscreteField
    from . import c20 as C
    kind = ("tri", "tet", "quad", "hex", "line")[k % 5]
    d = G.DIM[kind]
    mc = C.small_mesh(ctx, rng, kind, 6)
    mesh = mc.mesh
    M = "helper-field-definition"
    tag = {"mesh": type(mesh).__name__, "kind": kind}
    rec = EL.by_name(P2[kind])
    if kind != "line":
        vb = skfem.CellBasis(mesh, skfem.ElementVector(rec.make()))
        val, grad = poly_field(rng, d, d)
        xv = vb.project(lambda x: val(x))
        U = vb.interpolate(xv)
        X = vb.global_coordinates()
        Gx = grad(np.asarray(X))
        sc = np.abs(Gx).max() + 1.0
        # the input itself (projection/interpolation are C06/C14 matter): if it is off, do not judge the helpers
        if not np.abs(np.asarray(U.grad) - Gx).max() <= 1e-9 * sc:
            ctx.drop("interpolated-gradient-not-exact")
            return
        JU = JaxDiscreteField(*U.astuple)
        ones = np.ones_like(Gx[0, 0]) * sc
        div_ref = sum(Gx[i, i] for i in range(d))
        compare(ctx, M, "div(real)", NH.div(U), div_ref, ones, rtol=1e-9, mech="np-field:div-real", **tag)
        compare(ctx, "helper-jax-definition", "div(real)", JHm.div(JU), div_ref, ones, rtol=1e-9, mech="jax-field:div-real", **tag)
        sym_ref = .5 * (Gx + np.swapaxes(Gx, 0, 1))
        compare(ctx, M, "sym_grad(real)", NH.sym_grad(U), sym_ref, sc * np.ones_like(sym_ref), rtol=1e-9,
                mech="np-field:sym_grad-real", **tag)
        compare(ctx, "helper-jax-definition", "sym_grad(real)", JHm.sym_grad(JU), sym_ref, sc * np.ones_like(sym_ref),
                rtol=1e-9, mech="jax-field:sym_grad-real", **tag)
        if d == 2:
            curl_ref = Gx[1, 0] - Gx[0, 1]                      # d_x u_y - d_y u_x
            ctx.reached("np-curl-2d-vector")
        else:
            curl_ref = np.array([Gx[2, 1] - Gx[1, 2], Gx[0, 2] - Gx[2, 0], Gx[1, 0] - Gx[0, 1]])
            ctx.reached("np-curl-3d")
        compare(ctx, M, "curl(real)", NH.curl(U), curl_ref, sc * np.ones_like(curl_ref), rtol=1e-9,
                mech="np-field:curl-real", **tag)
        # mul / dot on real fields: (grad u) u and u . u
        V = np.asarray(U)
        compare(ctx, M, "mul(real)", NH.mul(U.grad, U), *d_matvec(np.asarray(U.grad), V), mech="np-field:mul-real", **tag)
        compare(ctx, "helper-jax-equals-np", "mul(real)", JHm.mul(JHm.grad(JU), JU), NH.mul(U.grad, U),
                d_matvec(np.asarray(U.grad), V)[1], mech="jax-vs-np:mul-real", **tag)
        ctx.nontrivial("real-field", kind, "vector")
    sb = skfem.CellBasis(mesh, rec.make())
    val, grad = poly_field(rng, d, 1)
    xs = sb.project(lambda x: val(x)[0])
    S = sb.interpolate(xs)
    X = np.asarray(sb.global_coordinates())
    gx = grad(X)[0]
    sc = np.abs(gx).max() + 1.0
    if not np.abs(np.asarray(S.grad) - gx).max() <= 1e-9 * sc:
        ctx.drop("interpolated-gradient-not-exact")
        return
    if d == 2:
        ref = np.array([gx[1], -gx[0]])                        # rot phi = (d_y phi, -d_x phi)
        compare(ctx, M, "curl(real scalar)", NH.curl(S), ref, sc * np.ones_like(ref), rtol=1e-9,
                mech="np-field:curl-2d-scalar-real", **tag)
        ctx.reached("np-curl-2d-scalar")
    if d == 1:
        compare(ctx, M, "div(real 1d)", NH.div(S), gx[0], sc * np.ones_like(gx[0]), rtol=1e-9, broadcast_ok=True,
                mech="np-field:div-1d-real", **tag)
        ctx.reached("np-div-1d")
    compare(ctx, M, "d(real)", NH.d(S), gx, sc * np.ones_like(gx), rtol=1e-9, mech="np-field:d-real", **tag)
    ctx.nontrivial("real-field", kind, "scalar")
    ctx.sample({"family": "real-fields", **tag, "cells": int(mesh.t.shape[1])}, per_family=2)


def fam_helpers_fields(ctx, k):
    rng = ctx.rng()
    if k % 2 == 0:
        synthetic_fields(ctx, rng, k // 2)
    else:
        real_fields(ctx, rng, k // 2)


# ------------------------------------------------------------------ input data types other than real float64
# Checks listed here are evaluated and classified but do not fail the run (suspected genuine defects that are
# reported to the maintainers of the harness instead of being added to the known findings).
REPORT_ONLY = set()      # (the inv(DiscreteField) defect it held was repaired in the library: 845b6f0)

DTYPE_VARIANTS = ("complex128", "float32", "int64", "field")


def typed(rng, shape, variant):
    """(array as given to the helper, the same numbers in float64 / complex128)."""
    if variant == "int64":
        g = rng.integers(-3, 4, size=shape).astype(np.int64)
        return g, g.astype(np.float64)
    x = rng.standard_normal(shape)
    if variant == "complex128":
        g = x + 1j * rng.standard_normal(shape)
        return g, g
    if variant == "float32":
        g = x.astype(np.float32)
        return g, g.astype(np.float64)
    return x, x


def typed_invertible(rng, n, tr, variant):
    """Matrices with a moderate condition number in the data type of the variant."""
    if variant == "int64":
        g = rng.integers(-2, 3, size=(n, n) + tr).astype(np.int64)
        for i in range(n):
            g[i, i] += 6                      # strictly diagonally dominant
        return g, g.astype(np.float64)
    A = np.array(well_conditioned(rng, n, tr, "C"))
    if variant == "complex128":
        ph = np.exp(1j * rng.uniform(0, 2 * np.pi, size=tr))
        g = A * ph + 0.02 * (rng.standard_normal(A.shape) + 1j * rng.standard_normal(A.shape))
        return g, g
    if variant == "float32":
        g = A.astype(np.float32)
        return g, g.astype(np.float64)
    return A, A


def compare_any(ctx, monitor, label, got, ref, scale, mech, rtol, **detail):
    """compare() for results that may be complex: |got - ref| <= rtol * scale pointwise, same shape, all finite."""
    try:
        g = np.asarray(got)
        if g.dtype == object:
            raise TypeError("object array")
    except Exception as e:
        return ctx.check(monitor, False, mech=mech, helper=label, problem="not-an-array:" + repr(e)[:80], **detail)
    ref = np.asarray(ref)
    if g.shape != ref.shape:
        return ctx.check(monitor, False, mech=mech, helper=label, problem="shape", got_shape=g.shape, ref_shape=ref.shape, **detail)
    err = np.abs(g - ref)
    ok = bool(np.all(err <= rtol * np.asarray(scale, dtype=float))) and bool(np.all(np.isfinite(g)))
    return ctx.check(monitor, ok, mech=mech, helper=label, max_err=lambda: float(np.nanmax(err)) if err.size else 0.0,
                     max_ref=lambda: float(np.abs(ref).max()) if ref.size else 0.0, got_dtype=str(g.dtype),
                     got_head=lambda: g.ravel()[:4], ref_head=lambda: ref.ravel()[:4], **detail)


def typed_cases(rng, n, tr, variant):
    """(label, helper, args as given, args in wide precision, reference, scale).  The definitions are the bilinear
    index sums (no complex conjugation anywhere)."""
    mk = lambda *shape: typed(rng, shape + tr, variant)
    (u, U), (v, V), (w3, W3) = mk(n), mk(n), mk(n)
    (A, AA), (B, BB) = mk(n, n), mk(n, n)
    (T, TT), (S, SS) = mk(n, n, n), mk(n, n, n)
    ab = np.abs
    out = [("dot", "dot", (u, v), d_dot(U, V)[0], d_dot(ab(U), ab(V))[1]),
           ("ddot", "ddot", (A, B), d_ddot(AA, BB)[0], d_ddot(ab(AA), ab(BB))[1]),
           ("dddot", "dddot", (T, S), d_dddot(TT, SS)[0], d_dddot(ab(TT), ab(SS))[1]),
           ("prod-2", "prod", (u, v), d_prod2(U, V)[0], ab(d_prod2(U, V)[0])),
           ("prod-3", "prod", (u, v, w3), d_prod3(U, V, W3)[0], ab(d_prod3(U, V, W3)[0])),
           ("mul-matvec", "mul", (A, u), d_matvec(AA, U)[0], d_matvec(ab(AA), ab(U))[1]),
           ("mul-matmat", "mul", (A, B), d_matmat(AA, BB)[0], d_matmat(ab(AA), ab(BB))[1]),
           ("trace", "trace", (A,), d_trace(AA)[0], d_trace(ab(AA))[1]),
           ("transpose", "transpose", (A,), np.swapaxes(AA, 0, 1), ab(np.swapaxes(AA, 0, 1))),
           ("det", "det", (A,), np.linalg.det(mv(AA)), np.prod(np.sqrt((ab(AA) ** 2).sum(1)), axis=0)),
           ("cross", "cross", (u, v), d_cross(U, V)[0], d_cross(ab(U), ab(V))[1] if n == 2 else
            np.sqrt((ab(U) ** 2).sum(0)) * np.sqrt((ab(V) ** 2).sum(0)) * np.ones(U.shape))]
    wv, WV = typed(rng, tr, variant)
    E = np.zeros((n, n) + tr, dtype=WV.dtype)
    for i in range(n):
        E[i, i] = WV
    out.append(("eye", "eye", (wv, n), E, ab(E)))
    Ai, AI = typed_invertible(rng, n, tr, variant)
    M = mv(AI)
    ref = np.moveaxis(np.linalg.inv(M), (-2, -1), (0, 1))
    cond = np.linalg.cond(M)
    out.append(("inv", "inv", (Ai,), ref, ab(ref).max((0, 1)) * np.maximum(cond, 1.0) * np.ones(ref.shape)))
    return out


def fam_helper_dtypes(ctx, k):
    """Helpers on complex128 / float32 / integer arrays and on field objects (DiscreteField, JaxDiscreteField) instead of
    raw arrays.  Reference: the same definitions evaluated by NumPy in complex128 / float64."""
    import jax.numpy as jnp
    from skfem import helpers as NH
    from skfem.autodiff import helpers as JHm
    from skfem.autodiff import JaxDiscreteField
    from skfem.element import DiscreteField
    rng = ctx.rng()
    n = 3 - k % 2
    variant = DTYPE_VARIANTS[(k + k // 4) % len(DTYPE_VARIANTS)]      # 4 cases: every variant; 8 cases: with n = 2 and 3
    tr = TRAILING[(k // 8 + k // 2) % len(TRAILING)]
    if variant == "field" and len(tr) != 2:
        tr = (3, 2)                                           # fields live on cells x quadrature points
    rtol = 1e-5 if variant == "float32" else RT
    for label, name, args, ref, scale in typed_cases(rng, n, tr, variant):
        isarr = lambda x: isinstance(x, np.ndarray)
        # ---- NumPy variant
        if name in NP_RAW:
            nargs = tuple(DiscreteField(x) if (variant == "field" and isarr(x)) else x for x in args)
            got = getattr(NH, name)(*nargs)
            mech = f"np-helper-dtype:{variant}:{label}"
            if variant == "field" and name == "inv":
                g = np.asarray(got)
                if g.shape == ref.shape and not g.any() and np.abs(ref).max() > 0:
                    mech = "np-inv-of-a-DiscreteField-returns-zeros"
            if mech in REPORT_ONLY:
                ctx.tolerated("helper-np-definition")
                ctx.drop("report-only:" + mech)
            else:
                compare_any(ctx, "helper-np-definition", label, got, ref, scale, mech, rtol, n=n, trailing=tr, variant=variant)
        # ---- JAX variant
        if name in JAX_RAW:
            if variant == "field":
                if name not in JAX_ACCEPTS_FIELD and name not in ("det", "eye"):
                    continue
                jargs = tuple(JaxDiscreteField(jnp.asarray(x)) if isarr(x) else x for x in args)
            else:
                jargs = tuple(jnp.asarray(x) if (isarr(x) and (k // 8) % 2 == 0) else x for x in args)
            try:
                got = getattr(JHm, name)(*jargs)
            except (TypeError, ValueError) as e:
                if variant == "field" and name not in JAX_ACCEPTS_FIELD:
                    # det / eye have no branch for field objects: refusing one is legitimate, a wrong value is not
                    ctx.tolerated("helper-jax-definition")
                    ctx.drop(f"jax-{name}-refuses-field-object")
                    continue
                raise
            compare_any(ctx, "helper-jax-definition", label, got, ref, scale, f"jax-helper-dtype:{variant}:{label}", rtol,
                        n=n, trailing=tr, variant=variant)
        ctx.nontrivial("dtype", variant, label, n)
    ctx.reached("helper-dtype:" + variant)
    ctx.sample({"module": "both", "n": n, "trailing": tr, "variant": variant}, per_family=2)


# ------------------------------------------------------------------ discovery
def public_functions(mod):
    return sorted(n for n, o in vars(mod).items()
                  if inspect.isfunction(o) and o.__module__ == mod.__name__ and not n.startswith("_"))


def fam_helper_exports(ctx, k):
    from skfem import helpers as NH
    from skfem.autodiff import helpers as JHm
    npn, jxn = public_functions(NH), public_functions(JHm)
    miss_np = sorted(set(npn) - NP_RAW - NP_FIELD)
    miss_jx = sorted(set(jxn) - JAX_RAW - JAX_FIELD)
    ctx.check("helper-tables-cover-exports", not miss_np and not miss_jx, mech="helper-without-oracle",
              numpy_missing=miss_np, jax_missing=miss_jx)
    gone = sorted((NP_RAW | NP_FIELD) - set(npn)) + sorted((JAX_RAW | JAX_FIELD) - set(jxn))
    ctx.check("helper-tables-cover-exports", not gone, mech="helper-disappeared", gone=gone)
    ctx.sample({"numpy_helpers": npn, "jax_helpers": jxn, "shared": sorted(set(npn) & set(jxn))})


# ------------------------------------------------------------------ directed inputs at the edge of the helper domains
def fam_edge(ctx, k):
    import skfem
    from skfem import helpers as NH
    from skfem.element import DiscreteField
    from skfem.autodiff import helpers as JHm
    from skfem.autodiff import JaxDiscreteField, NonlinearForm
    rng = ctx.rng()
    if k % 4 == 0:
        # divergence of an H(div) field (grad is None, div is an attribute): NumPy returns the attribute
        nel, nq = 3, 2
        val, dv = rng.standard_normal((2, nel, nq)), rng.standard_normal((nel, nq))
        ref = NH.div(DiscreteField(val, None, dv))
        try:
            got = JHm.div(JaxDiscreteField(val, None, dv))
            err = None
        except Exception as e:
            got, err = None, e
        ctx.check("helper-jax-equals-np", err is None and got is not None and np.array_equal(np.asarray(got), ref),
                  mech=lambda: ("jax-div-raises-when-grad-is-None"
                                if isinstance(err, AttributeError) and "NoneType" in str(err) and "shape" in str(err)
                                else "jax-vs-np:div-attr"),
                  helper="div(H(div) field)", error=repr(err))
    elif k % 4 == 1:
        # the same through a NonlinearForm on a Raviart-Thomas x P0 pair
        mesh = skfem.MeshTri1().refined(1) if (k // 4) % 2 == 0 else skfem.MeshTet1()
        rt = ("ElementTriRT1", "ElementTriP0") if mesh.dim() == 2 else ("ElementTetRT1", "ElementTetP0")
        basis = skfem.CellBasis(mesh, skfem.ElementComposite(EL.by_name(rt[0]).make(), EL.by_name(rt[1]).make()))

        def darcy(u, p, v, q, w):
            # field first: `ndarray * JaxDiscreteField` is the NumPy-left pitfall described in c20.py
            return JHm.dot(u, v) - p * JHm.div(v) + q * JHm.div(u)

        def darcy_np(u, p, v, q, w):
            return (np.asarray(u) * np.asarray(v)).sum(0) - v.div * np.asarray(p) + u.div * np.asarray(q)
        A = skfem.BilinearForm(darcy_np).assemble(basis)
        x = rng.uniform(-1, 1, size=basis.N)
        try:
            J, r = NonlinearForm(darcy).assemble(basis, x=x)
            err = None
        except Exception as e:
            J, err = None, e
        ok = err is None and np.abs(J.toarray() - A.toarray()).max() <= 1e-12 * np.abs(A).max() \
            and np.abs(r + A @ x).max() <= 1e-11 * (abs(A) @ np.abs(x)).max()
        ctx.check("linear-reduces-to-ordinary-assembly", ok,
                  mech=lambda: ("jax-div-raises-when-grad-is-None"
                                if isinstance(err, AttributeError) and "NoneType" in str(err) and "shape" in str(err)
                                else "linear-matrix:darcy-with-div-helper"),
                  helper="div(u) of an H(div) component inside NonlinearForm", error=repr(err),
                  elem="x".join(rt))
    elif k % 4 == 2:
        # divergence of a 1-D field: NumPy returns du/dx
        nel, nq = 4, 3
        val, g = rng.standard_normal((nel, nq)), rng.standard_normal((1, nel, nq))
        ref = NH.div(DiscreteField(val, g))
        try:
            got = JHm.div(JaxDiscreteField(val, g))
            err = None
        except Exception as e:
            got, err = None, e
        ctx.check("helper-jax-equals-np", err is None and got is not None and np.array_equal(np.asarray(got), ref),
                  mech=lambda: "jax-div-1d-field-returns-None" if (err is None and got is None) else "jax-vs-np:div-1d",
                  helper="div(1-D field)", got=repr(got)[:80], error=repr(err))
    else:
        # integer-valued coefficient matrices (a user writing np.array([[2, 1], [0, 2]])): same mathematics
        for n, A in ((2, np.array([[2, 1], [0, 2]])), (3, np.array([[2, 0, 1], [0, 2, 0], [0, 0, 4]]))):
            ref = np.linalg.inv(A)
            got = NH.inv(A)
            trunc = np.issubdtype(np.asarray(got).dtype, np.integer) and np.array_equal(got, np.trunc(ref).astype(got.dtype))
            ctx.check("helper-np-definition", np.allclose(got, ref, rtol=1e-14, atol=0),
                      mech=lambda trunc=trunc: "np-inv-integer-input-truncated" if trunc else "np-helper:inv-int",
                      helper="inv(integer matrix)", A=A, got=got, ref=ref, out_dtype=str(np.asarray(got).dtype))
            ctx.check("helper-np-definition", NH.det(A) == round(np.linalg.det(A)), mech="np-helper:det-int",
                      helper="det(integer matrix)", A=A)
            B = A[::-1].copy()
            ctx.check("helper-np-definition", np.array_equal(NH.mul(A, B[:, 0]), A @ B[:, 0])
                      and np.array_equal(NH.transpose(A), A.T) and NH.trace(A) == np.trace(A)
                      and np.array_equal(NH.dot(A[0], B[0]), A[0] @ B[0]), mech="np-helper:int-algebra",
                      helper="mul/transpose/trace/dot(integer)")


# ------------------------------------------------------------------ a fresh interpreter
# The JAX helpers compute in double precision because importing skfem.autodiff switches JAX to 64 bit.  A process that
# has assembled a NonlinearForm before (every other family of this module, sooner or later) cannot see whether the
# helpers depend on anything else that assembly does, so one program per case runs in a NEW interpreter:
#     import skfem.autodiff.helpers -> every JAX helper on float64 input -> the first assembly of the process
#     (assemble / elemental) -> every JAX helper again
# (third program: the assembly is the very first JAX computation of the process).  The child only computes; the data
# come from the parent, which judges the answers against the definitions, the NumPy helpers, the hand-linearised
# matrix and the ordinarily assembled residual exactly as the in-process families do.
_CHILD_CODE = "from rv.monitors import c20_helpers as M\nM.child_main()\n"
FRESH_PROGRAMS = (("helpers:before-assembly", "assemble", "helpers:after-assembly"),
                  ("helpers:before-assembly", "elemental", "helpers:after-assembly"),
                  ("assemble", "helpers:after-assembly"))


def child_main():
    """Entry point of the new interpreter: pickled request on stdin, pickled answer on stdout."""
    import pickle
    import sys
    import warnings
    out = sys.stdout.buffer
    sys.stdout = sys.stderr                 # nothing but the answer may reach the pipe
    warnings.simplefilter("ignore")
    req = pickle.loads(sys.stdin.buffer.read())
    # importing the harness modules must not have touched JAX (otherwise the run says nothing about a fresh process)
    ans = {"jax_preloaded": ("jax" in sys.modules) or ("skfem.autodiff" in sys.modules), "phases": {}, "x64": {}}
    try:
        for step in req["program"]:
            if step.startswith("helpers:"):
                ans["phases"][step] = child_helpers(req["cases"], req["fields"])
            else:
                ans["asm"] = child_assemble(req["asm"], elemental=(step == "elemental"))
            import jax
            ans["x64"][step] = bool(jax.config.jax_enable_x64)
    except BaseException as e:              # reported to the parent, which decides
        import traceback
        ans["error"] = type(e).__name__ + ":" + repr(e)[:300] + " @ " + traceback.format_exc()[-600:]
    out.write(pickle.dumps(ans))
    out.flush()


def child_helpers(cases, fields):
    """Every JAX helper on the parent's float64 data, the way a user calls them after `import skfem.autodiff.helpers`."""
    from skfem.autodiff import helpers as JHm
    from skfem.autodiff import JaxDiscreteField
    import jax.numpy as jnp
    res = {}

    def record(key, fn):
        try:
            got = fn()
            res[key] = {"dtype": str(getattr(got, "dtype", type(got).__name__)), "value": np.asarray(got)}
        except Exception as e:
            res[key] = {"error": type(e).__name__ + ":" + repr(e)[:200]}

    for key, name, args, spelling in cases:
        def conv(x):
            if not isinstance(x, np.ndarray):
                return x
            if spelling == "jax":
                return jnp.asarray(x)
            if spelling == "field":
                return JaxDiscreteField(jnp.asarray(x))
            return x
        record(key, lambda: getattr(JHm, name)(*tuple(conv(x) for x in args)))
    for key, name, attrs in fields:
        record(key, lambda: getattr(JHm, name)(JaxDiscreteField(*attrs)))
    return res


def child_assemble(spec, elemental):
    import pickle
    import skfem
    from . import c20 as C
    from ..gen import c20_integrands as TG
    layout, kind, idx = spec["rec"]
    rec = C.lay()[layout][kind][idx]
    mesh = pickle.loads(spec["meshclass"])(spec["p"], spec["t"])
    basis = skfem.CellBasis(mesh, rec.make(), intorder=spec["intorder"])
    pool = [t for t in TG.pool(spec["pool"]) if t.layout == layout and t.energy == spec["energy"]]
    terms = [[t for t in pool if t.name == name][0] for name in spec["terms"]]
    prob = C.Problem(basis, terms, spec["Ps"], {}, energy=spec["energy"], spelling=spec["spelling"], factor=spec["factor"])
    J, r = prob.call(spec["x"], elemental=elemental)
    if elemental:
        J, r = J.todefault(), r.todefault()
    return {"J": np.asarray(J.toarray()), "rhs": np.asarray(r), "Jdtype": str(J.dtype), "N": int(basis.N),
            "construction": prob.construction}


def fresh_field_cases(rng):
    """(key, helper, attributes of the field, reference, scale, rtol) for the JAX helpers that take a field."""
    nel, nq = int(rng.integers(2, 5)), int(rng.integers(1, 4))
    R = lambda *s: rng.standard_normal(s + (nel, nq))
    out = []
    for d in (2, 3):
        val, g = R(d), R(d, d)
        out.append((f"grad:{d}", "grad", (val, g), g, np.abs(g), 0.0))
        out.append((f"div(trace):{d}", "div", (val, g), *d_trace(g), RT))
        out.append((f"sym_grad:{d}", "sym_grad", (val, g), .5 * (g + np.swapaxes(g, 0, 1)),
                    np.abs(g) + np.abs(np.swapaxes(g, 0, 1)), RT))
        sv, sg, sh = R(), R(d), R(d, d)
        out.append((f"dd:{d}", "dd", (sv, sg, None, None, sh), sh, np.abs(sh), 0.0))
        dv = R()
        out.append((f"div(attr):{d}", "div", (val, None, dv), dv, np.abs(dv), 0.0))
    v1, g1 = R(), R(1)
    out.append(("div(1d)", "div", (v1, g1), g1[0], np.abs(g1[0]), 0.0))
    return out


def fam_fresh_process(ctx, k):
    import os
    import pickle
    import subprocess
    import sys
    import skfem
    from skfem import helpers as NH
    from ..engine import REPO, VERIF
    from . import c20 as C
    rng = ctx.rng()
    program = FRESH_PROGRAMS[k % len(FRESH_PROGRAMS)]
    # ---- helper inputs (float64, C-contiguous; the spelling numpy / jnp array / JaxDiscreteField rotates)
    if ctx.thorough:
        shapes = [(2, TRAILING[(k // 3) % len(TRAILING)]), (3, TRAILING[(k // 3 + 3) % len(TRAILING)]), (2 + k % 2, (4, 3))]
    else:
        shapes = [(2, (4, 3)), (3, (5,))]
    cases, refs = [], {}
    for n, tr in shapes:
        for i, (label, name, args, (ref, scale)) in enumerate(raw_cases(rng, n, tr, "C", JAX_RAW)):
            spelling = ("numpy", "jax", "field")[(i + k) % 3]
            if spelling == "field" and name not in JAX_ACCEPTS_FIELD:
                spelling = "jax"
            key = f"{label}:{n}x{n}:{len(tr)}"
            cases.append((key, name, args, spelling))
            refs[key] = (label, name, args, ref, scale, {"n": n, "trailing": tr, "spelling": spelling})
    fcases = fresh_field_cases(rng)
    # ---- the first assembly of the process: a problem of the grammar on a small mesh rebuilt from (p, t) on both sides
    energy = (k % 4 == 3)
    layout, kind, rec = C.choose(ctx, k, ["scalar", "vector"], 8, pred=lambda r: r.mesh_req == "any")
    idx = C.lay()[layout][kind].index(rec)
    mc = C.small_mesh(ctx, rng, kind, {"line": 5, "tri": 6, "quad": 4, "tet": 4, "hex": 2, "wedge": 2}[kind])
    p, t = np.array(mc.mesh.p), np.array(mc.mesh.t)
    mesh = type(mc.mesh)(p, t)
    intorder = 3 + k % 2
    basis = skfem.CellBasis(mesh, rec.make(), intorder=intorder)
    poolname = "energy" if energy else layout
    terms = [tm for tm in C.pick_terms(rng, poolname, layout, mesh.dim(), kmax=2, energy=energy, rot=k // 2)
             if tm.kw is None and tm.name != "kwargs"]
    if not terms:
        raise Skip("only-keyword-terms")
    Ps = [tm.coef(rng) for tm in terms]
    prob = C.Problem(basis, terms, Ps, {}, energy=energy, spelling=k)
    names = prob.names()
    which, x = C.lin_point(ctx, rng, prob, ("unit", "large")[k % 2])
    x = C.representable(x, prob.xspelling, prob, which)
    req = {"program": program, "cases": cases, "fields": [(key, name, attrs) for key, name, attrs, _, _, _ in fcases],
           "asm": {"rec": (layout, kind, idx), "meshclass": pickle.dumps(type(mesh)), "p": p, "t": t, "intorder": intorder,
                   "pool": poolname, "terms": [tm.name for tm in terms], "Ps": Ps, "energy": energy, "spelling": k,
                   "factor": None, "x": x}}
    env = dict(os.environ, PYTHONPATH=os.pathsep.join([REPO, VERIF, os.path.join(VERIF, ".deps")]), PYTHONHASHSEED="0",
               PYTHONDONTWRITEBYTECODE="1")
    env.pop("JAX_ENABLE_X64", None)          # (somebody else switching JAX to 64 bit would make the run vacuous)
    r = subprocess.run([sys.executable, "-B", "-c", _CHILD_CODE], input=pickle.dumps(req), capture_output=True,
                       timeout=300, env=env, cwd=VERIF)
    try:
        ans = pickle.loads(r.stdout)
    except Exception:
        ans = None
    if r.returncode != 0 or not isinstance(ans, dict):
        raise Skip("fresh-process-run-failed:" + (r.stderr or b"")[-160:].decode("utf8", "replace"))
    if ans["jax_preloaded"]:
        raise Skip("fresh-process-not-fresh:jax-imported-by-the-harness")
    tag = {"program": list(program), "x64_after_step": ans["x64"]}
    if "error" in ans:
        # the program itself failed inside the library / JAX: the statement promises values, not exceptions
        ctx.check("helper-jax-definition", False, mech="fresh-process:program-raises:" + ans["error"].split(":")[0],
                  error=ans["error"], **tag)
        return
    # ---- helpers
    for phase, res in ans["phases"].items():
        def single(out):
            return out.get("dtype") == "float32"
        for key, (label, name, args, ref, scale, det) in refs.items():
            out = res.get(key, {"error": "missing"})
            if "error" in out:
                ctx.check("helper-jax-definition", False, mech=f"fresh-process:{phase}:jax-helper-raises:{label}",
                          helper=label, error=out["error"], **det, **tag)
                continue
            m32 = f"fresh-process:{phase}:jax-helpers-compute-in-float32"
            compare(ctx, "helper-jax-definition", label, out["value"], ref, scale,
                    mech=m32 if single(out) else f"fresh-process:{phase}:jax-helper:{label}", dtype=out["dtype"], **det, **tag)
            ctx.check("jax-float64", out["dtype"] == "float64",
                      mech=m32 if single(out) else f"fresh-process:{phase}:jax-helper-result-not-float64:{label}",
                      helper=label, dtype=out["dtype"], **det, **tag)
            if hasattr(NH, name):
                compare(ctx, "helper-jax-equals-np", label, out["value"], getattr(NH, name)(*args), scale,
                        mech=m32 if single(out) else f"fresh-process:{phase}:jax-vs-np:{label}", dtype=out["dtype"], **det, **tag)
            ctx.nontrivial("fresh-process", phase, label, det["n"], len(det["trailing"]))
        for key, name, attrs, ref, scale, rtol in fcases:
            out = res.get(key, {"error": "missing"})
            if "error" in out:
                ctx.check("helper-jax-definition", False, mech=f"fresh-process:{phase}:jax-field-helper-raises:{key}",
                          helper=key, error=out["error"], **tag)
                continue
            m32 = f"fresh-process:{phase}:jax-helpers-compute-in-float32"
            compare(ctx, "helper-jax-definition", key, out["value"], ref, scale, rtol=rtol,
                    mech=m32 if single(out) else f"fresh-process:{phase}:jax-field:{key}", dtype=out["dtype"], **tag)
            ctx.check("jax-float64", out["dtype"] == "float64",
                      mech=m32 if single(out) else f"fresh-process:{phase}:jax-field-helper-result-not-float64:{key}",
                      helper=key, dtype=out["dtype"], **tag)
            ctx.nontrivial("fresh-process", phase, key)
        ctx.reached("fresh-process:" + phase)
    # ---- the assembly
    asm = ans.get("asm")
    if asm is not None:
        N = basis.N
        x0 = np.zeros(N) if x is None else x
        atag = dict(tag, layout=layout, elem=rec.name, mesh=type(mesh).__name__, terms=names, point=which,
                    construction=asm["construction"])
        ok = asm["N"] == N and asm["J"].shape == (N, N) and asm["rhs"].shape == (N,) and asm["Jdtype"] == "float64" \
            and asm["rhs"].dtype == np.float64
        ctx.check("output-structure", ok, mech="fresh-process:first-assembly:output-structure", N=int(N), childN=asm["N"],
                  Jdtype=asm["Jdtype"], **atag)
        if ok:
            F = prob.residual(x0)
            sF = float(prob.residual(x0, absolute=True).max())
            ctx.close("rhs-is-minus-residual", asm["rhs"], -F, rtol=C.RT_RHS, scale=sF,
                      mech="fresh-process:first-assembly:rhs:" + names, **atag)
            Jh = prob.jac_hand(x0).toarray()
            ctx.close("jacobian-vs-hand-linearised", asm["J"], Jh, rtol=C.RT_HAND, scale=float(np.abs(Jh).max()),
                      mech="fresh-process:first-assembly:jac-hand:" + names,
                      worst=lambda: C.worst_entry(asm["J"], Jh), **atag)
            ctx.reached("fresh-process:first-assembly")
            ctx.reached("fresh-process:first-call:" + ("elemental" if "elemental" in program else "assemble"))
            if float(np.abs(Jh).max()) > 0:
                ctx.nontrivial("fresh-process", "assembly", layout, names, program.index([s for s in program if ":" not in s][0]))
    ctx.sample({"program": list(program), "helpers": len(cases) + len(fcases), "assembly": {"layout": layout, "elem": rec.name,
                "terms": names, "N": int(basis.N)}, "x64_after_step": ans["x64"]}, per_family=2)
