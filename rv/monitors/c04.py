"""C04 DOF numbering: gap-free, shared exactly along shared entities; local matrices.

Oracle: every global number is decoded, from each cell that references it, to the mesh
entity (vertex / edge / facet / cell) its row position stands for, using the dictionary
topology of rv.refmodel.topology.  The decoding must be a function (one entity per number),
injective per entity with the element's per-entity count, agree with the per-entity tables
and with the DOF location table, and the assembled sparsity pattern must lie inside the
cell co-occurrence relation.
"""
from __future__ import annotations

import numpy as np

from ..engine import Family, Skip
from ..gen import elements as EL
from ..gen import meshes as G
from ..refmodel import topology as T
from ..refmodel import geometry as GEO

PID = "C04"
RULE = ("random meshes of all cell kinds (renumbered, permuted, admissible local orders, holes, second-order) x every "
        "registry element of that kind incl. vector/DG/composite wrappers and LinePp/QuadP degrees; distinct key = "
        "(mesh class, element record, per-entity counts); non-trivial iff >= 2 cells share an entity that carries "
        ">= 1 DOF, or the element has interior DOFs")
TRACK = ["skfem.assembly.dofs:Dofs.__init__", "skfem.assembly.basis.abstract_basis:AbstractBasis.__init__",
         "skfem.element.element:Element._bfun_counts"]
REQUIRED_MONITORS = ["gap-free", "tables-partition", "number-to-entity-function", "entity-count",
                     "tables-agree-with-rows", "doflocs-agree", "matrix-shape", "sparsity-inside-cooccurrence",
                     "registry-covers-exports"]


def generic_mass(*args):
    fs = args[:-1]
    n = len(fs) // 2
    out = 0
    for k in range(n):
        a, b = fs[k].value, fs[n + k].value
        pr = a * b
        while pr.ndim > 2:
            pr = pr.sum(axis=0)
        out = out + pr
    return out


def decode_rows(elem, topo, kind, dim):
    """Per cell: list over rows of element_dofs of the entity the row stands for (kind, key, j)."""
    rd = elem.refdom
    nn, ne, nf = rd.nnodes, rd.nedges, rd.nfacets
    layout = []
    for v in range(nn):
        for j in range(elem.nodal_dofs):
            layout.append(("v", v, j))
    if dim == 3:
        for s in range(ne):
            for j in range(elem.edge_dofs):
                layout.append(("e", s, j))
    if dim >= 2:
        for s in range(nf):
            for j in range(elem.facet_dofs):
                layout.append(("f", s, j))
    elif elem.facet_dofs:
        layout = None  # 1-D elements with facet DOFs: library does not number them
    if layout is not None:
        for j in range(elem.interior_dofs):
            layout.append(("i", 0, j))
    return layout


class _Named:
    def __init__(self, name):
        self.name = name


def check_dofs(ctx, mc, rec, basis=None):
    import skfem
    mesh, kind = mc.mesh, mc.kind
    elem = rec.make()
    if basis is None:
        basis = skfem.CellBasis(mesh, elem)
    if not check_dofs_structure(ctx, mesh, kind, mc.dim, elem, basis.dofs, rec, mc.desc):
        return basis
    check_doflocs(ctx, mc, rec, elem, basis)
    check_split_indices(ctx, mc, rec, elem, basis)
    check_offset(ctx, mc, rec, elem, basis)
    check_dg_wrapper(ctx, mc, rec, elem, basis)
    return basis


def check_dg_wrapper(ctx, mc, rec, elem, basis):
    """ElementDG(e): every local function of e becomes a cell-interior DOF - as many as e has on this reference cell
    (vertices, edges, facets of THIS cell kind, interior), at e's own locations, in e's order."""
    if not rec.name.startswith("DG(") or not hasattr(elem, "elem"):
        return
    inner = elem.elem
    rd = mc.mesh.elem.refdom
    dim = mc.dim
    want = (inner.nodal_dofs * rd.nnodes + (inner.edge_dofs * rd.nedges if dim == 3 else 0)
            + (inner.facet_dofs * rd.nfacets if dim >= 2 else 0) + inner.interior_dofs)
    if dim == 1 and getattr(inner, "facet_dofs", 0):
        return
    got = int(elem.interior_dofs)
    rows = int(np.asarray(basis.dofs.element_dofs).shape[0])
    li, lo = np.asarray(getattr(inner, "doflocs", np.zeros((0, 0))), dtype=float), np.asarray(getattr(elem, "doflocs", np.zeros((0, 0))), dtype=float)
    same_locs = li.shape == lo.shape and np.allclose(np.nan_to_num(li), np.nan_to_num(lo)) if li.size else True
    ctx.check("row-count", got == want and rows == want and int(basis.Nbfun) == want and same_locs,
              mech="dg-wrapper-does-not-carry-all-local-functions-of-the-wrapped-element", elem=rec.name, interior_dofs=got, rows=rows,
              Nbfun=int(basis.Nbfun), wrapped=want, locations_equal=bool(same_locs), mesh=type(mc.mesh).__name__)
    ctx.reached("dg-wrapper-counted")
    if inner.facet_dofs and mc.kind in ("quad", "hex"):
        ctx.reached("dg-wrapper-of-facet-dofs-on-tensor-cells")


def check_offset(ctx, mc, rec, elem, basis):
    """Dofs(mesh, element, offset=k), the numbering a caller places behind k other unknowns: the same tables and per-cell
    numbering, every number k higher - so tables and rows of that object agree with each other exactly as those of the
    judged object do (range k..N-1 instead of 0..N-1)."""
    import skfem
    base = basis.dofs
    k = 1 + (int(base.N) % 7)
    try:
        sh = skfem.assembly.Dofs(mc.mesh, rec.make(), offset=k)
    except Exception as ex:  # noqa: BLE001
        ctx.tolerated("tables-agree-with-rows")
        ctx.drop("dofs-with-offset-refused:" + type(ex).__name__)
        return
    bad = None
    for name in ("nodal_dofs", "edge_dofs", "facet_dofs", "interior_dofs", "element_dofs"):
        a, b = np.asarray(getattr(sh, name)), np.asarray(getattr(base, name))
        if a.shape != b.shape or not np.array_equal(a.astype(np.int64), b.astype(np.int64) + k):
            bad = name
            break
    ctx.check("tables-agree-with-rows", bad is None and int(sh.N) == int(base.N) + k, mech="numbering-with-offset-is-not-the-shifted-numbering",
              table=bad, offset=k, N=int(sh.N), want_N=int(base.N) + k, elem=rec.name, mesh=type(mc.mesh).__name__)
    ctx.reached("numbering-with-offset")


def row_components(elem, rd, dim):
    """Component of every row of element_dofs of a composite / vector element from the documented row order (vertex by
    vertex, edge by edge in 3-D, facet by facet, interior; within an entity component by component - for ElementVector
    the components alternate within the entity)."""
    nedges = len(rd.edges) if dim == 3 else 0
    nfac = rd.nfacets if dim >= 2 else 0
    if hasattr(elem, "elems"):
        cnt = [(e.nodal_dofs, e.edge_dofs if dim == 3 else 0, e.facet_dofs if dim >= 2 else 0, e.interior_dofs) for e in elem.elems]
        block = lambda j: [c for c, n in enumerate(cnt) for _ in range(n[j])]
    else:
        nd = elem.dim
        tot = (elem.nodal_dofs, elem.edge_dofs if dim == 3 else 0, elem.facet_dofs if dim >= 2 else 0, elem.interior_dofs)
        block = lambda j: [i % nd for i in range(tot[j])]
    return np.array(block(0) * rd.nnodes + block(1) * nedges + block(2) * nfac + block(3), dtype=int)


def check_split_indices(ctx, mc, rec, elem, basis):
    """split_indices(): one index set per component, a partition of 0..N-1 that agrees with the per-cell numbering."""
    import skfem
    if not isinstance(elem, (skfem.ElementComposite, skfem.ElementVector)) or mc.dim < 1:
        return
    if mc.dim == 1 and getattr(elem, "facet_dofs", 0):
        return
    ed = np.asarray(basis.dofs.element_dofs)
    comp = row_components(elem, mc.mesh.elem.refdom, mc.dim)
    if comp.size != ed.shape[0]:
        ctx.drop("split-indices:row-model-does-not-apply")
        return
    tag = {"mesh": type(mc.mesh).__name__, "elem": rec.name, "desc": mc.desc}
    try:
        parts = [np.asarray(ix) for ix in basis.split_indices()]
    except Exception as e:
        ctx.check("split-indices-follow-the-numbering", False, mech="split-indices-raise:" + type(e).__name__, **tag)
        return
    ncomp = int(comp.max()) + 1
    ok = len(parts) == ncomp
    bad = None
    if ok:
        allix = np.concatenate(parts) if parts else np.zeros(0, dtype=int)
        ok = allix.size == basis.N and np.array_equal(np.sort(allix), np.arange(basis.N))
        if not ok:
            bad = ("not-a-partition", int(allix.size), int(basis.N))
        for c in range(ncomp):
            want = np.unique(ed[comp == c])
            if not np.array_equal(np.sort(parts[c]), want):
                ok, bad = False, ("component", c, np.sort(parts[c])[:8].tolist(), want[:8].tolist())
                break
    ctx.check("split-indices-follow-the-numbering", ok, mech="split-indices:" + rec.name.split("(")[0], first_bad=bad,
              n=len(parts), want_n=ncomp, **tag)
    ctx.reached("split-indices")


def check_dofs_structure(ctx, mesh, kind, dim, elem, dofs, rec, desc):
    """Structural oracle on a Dofs object (also attached to Dofs.__init__ under the repository suite)."""
    class mc:  # minimal stand-in used below
        pass
    mc.dim, mc.desc = dim, desc
    ed = np.asarray(dofs.element_dofs)
    N = int(dofs.N)
    tag = {"mesh": type(mesh).__name__, "elem": rec.name, "desc": mc.desc}
    mk = lambda what: f"{what}:{rec.name.split('(')[0]}"

    u = np.unique(ed)
    ctx.check("gap-free", u.size == N and u[0] == 0 and u[-1] == N - 1, mech=mk("gap"), N=N, unique=int(u.size), **tag)

    topo = T.from_mesh(mesh)
    layout = decode_rows(elem, topo, kind, mc.dim)
    counts = (elem.nodal_dofs, elem.edge_dofs if mc.dim == 3 else 0, elem.facet_dofs if mc.dim >= 2 else 0,
              elem.interior_dofs)
    if layout is None:
        raise Skip("1d-facet-dofs")
    ctx.check("row-count", ed.shape == (len(layout), topo.nt), mech=mk("rows"), shape=ed.shape, want=len(layout), **tag)
    if ed.shape != (len(layout), topo.nt):
        return False

    # tables: shapes, pairwise disjoint, cover 0..N-1
    tabs = {"v": np.asarray(dofs.nodal_dofs), "e": np.asarray(dofs.edge_dofs), "f": np.asarray(dofs.facet_dofs),
            "i": np.asarray(dofs.interior_dofs)}
    nvert = int(np.max(mesh.t[:elem.refdom.nnodes])) + 1
    want_shape = {"v": (counts[0], nvert) if counts[0] else None,
                  "e": (counts[1], len(topo.edge_cells)) if counts[1] else None,
                  "f": (counts[2], len(topo.facet_cells)) if counts[2] else None,
                  "i": (counts[3], topo.nt) if counts[3] else None}
    allnum = []
    ok = True
    for kk, tab in tabs.items():
        if want_shape[kk] is None:
            ok &= tab.size == 0
        else:
            ok &= tab.shape == want_shape[kk]
            allnum.append(tab.ravel())
    allnum = np.concatenate(allnum) if allnum else np.zeros(0, dtype=int)
    ctx.check("tables-partition", ok and allnum.size == N and np.array_equal(np.sort(allnum), np.arange(N)),
              mech=mk("tables"), shapes={k: v.shape for k, v in tabs.items()}, want=want_shape, N=N, **tag)

    # decode every (row, cell) to its entity
    t = np.asarray(mesh.t)
    num2ent = {}
    ent2num = {}
    conflict = None
    for c in range(topo.nt):
        for r, (ek, s, j) in enumerate(layout):
            if ek == "v":
                ent = ("v", int(t[s, c]))
            elif ek == "e":
                ent = ("e", topo.cell_edges[c][s])
            elif ek == "f":
                ent = ("f", topo.cell_facets[c][s])
            else:
                ent = ("i", c)
            n = int(ed[r, c])
            prev = num2ent.setdefault(n, ent)
            if prev != ent and conflict is None:
                conflict = (n, prev, ent, c, r)
            ent2num.setdefault(ent, set()).add(n)
    ctx.check("number-to-entity-function", conflict is None, mech=mk("shared-wrong"), conflict=conflict, **tag)
    cnt = {"v": counts[0], "e": counts[1], "f": counts[2], "i": counts[3]}
    bad = next(((e, sorted(ns)) for e, ns in ent2num.items() if len(ns) != cnt[e[0]]), None)
    ctx.check("entity-count", bad is None, mech=mk("entity-count"), first_bad=bad, **tag)

    # tables agree with the rows (entity index through the library's own facet/edge lists, validated by C11)
    ok, badrow = True, None
    fidx = {tuple(sorted({int(v) for v in col})): i for i, col in enumerate(np.asarray(mesh.facets).T)} \
        if counts[2] else {}
    eidx = {tuple(sorted({int(v) for v in col})): i for i, col in enumerate(np.asarray(mesh.edges).T)} \
        if counts[1] else {}
    for c in range(topo.nt):
        for r, (ek, s, j) in enumerate(layout):
            if ek == "v":
                want = tabs["v"][j, t[s, c]]
            elif ek == "e":
                want = tabs["e"][j, eidx[topo.cell_edges[c][s]]]
            elif ek == "f":
                want = tabs["f"][j, fidx[topo.cell_facets[c][s]]]
            else:
                want = tabs["i"][j, c]
            if want != ed[r, c]:
                ok, badrow = False, (c, r, int(ed[r, c]), int(want))
                break
        if not ok:
            break
    ctx.check("tables-agree-with-rows", ok, mech=mk("row-order"), first_bad=badrow, **tag)

    shared = any(len({c for c, _ in v}) >= 2 for v in topo.facet_cells.values()) and (counts[0] or counts[1] or counts[2])
    if shared or counts[3]:
        ctx.nontrivial(type(mesh).__name__, rec.name, counts)
    return True


_LOC_OK = ("ElementTriRT1", "ElementTetRT1", "ElementQuadRT1", "ElementHexRT1", "ElementTriN1", "ElementTetN1",
           "ElementQuadN1")


def _locs_claimed(r):
    return bool(r.nodal or r.name.split("(")[0] in _LOC_OK or r.name.startswith(("DG(", "Vector(")))


def composite_reference_locations(elem, rd, dim):
    """Reference locations of a composite element's local functions from the components' own tables and the
    documented row order: vertex by vertex, then edge by edge (3-D), facet by facet, interior; within an entity
    component by component."""
    nedges = len(rd.edges) if dim == 3 else 0
    nfac = rd.nfacets if dim >= 2 else 0
    comps = []
    for e in elem.elems:
        L = np.asarray(e.doflocs, dtype=float)
        ne = e.edge_dofs if dim == 3 else 0
        nf = e.facet_dofs if dim >= 2 else 0
        o1 = rd.nnodes * e.nodal_dofs
        o2 = o1 + nedges * ne
        o3 = o2 + nfac * nf
        comps.append((L, e.nodal_dofs, ne, nf, e.interior_dofs, o1, o2, o3))
    rows = []
    for v in range(rd.nnodes):
        for L, nn, ne, nf, ni, o1, o2, o3 in comps:
            rows += [L[v * nn + r] for r in range(nn)]
    for s in range(nedges):
        for L, nn, ne, nf, ni, o1, o2, o3 in comps:
            rows += [L[o1 + s * ne + r] for r in range(ne)]
    for s in range(nfac):
        for L, nn, ne, nf, ni, o1, o2, o3 in comps:
            rows += [L[o2 + s * nf + r] for r in range(nf)]
    for L, nn, ne, nf, ni, o1, o2, o3 in comps:
        rows += [L[o3 + r] for r in range(ni)]
    return np.array(rows)


LOC_EXCLUDED = ("ElementTri15ParamPlate", "ElementTetSkeletonP0")   # reference tables not on their entities (checked once)


def check_dofloc_entities(ctx, mc, rec, elem, basis):
    """Every DOF location lies on the entity the number is attached to (first-order meshes): a vertex DOF at its vertex,
    an edge / facet DOF in the affine hull and bounding box of the entity's vertices, an interior DOF inside the bounding
    box of its cell; NaN exactly where the element's own table has NaN.  Independent of which neighbouring cell wrote the
    location last."""
    mesh, kind, dim = mc.mesh, mc.kind, mc.dim
    if mc.order != 1 or not hasattr(elem, "doflocs") or not hasattr(basis, "doflocs") or rec.name.split("(")[0] in LOC_EXCLUDED \
            or any(n in rec.name for n in LOC_EXCLUDED):
        return
    rd = elem.refdom
    layout = decode_rows(elem, None, kind, dim)
    L = np.asarray(elem.doflocs, dtype=float)
    ed = np.asarray(basis.dofs.element_dofs)
    if layout is None or L.shape[0] != len(layout) or ed.shape[0] != len(layout):
        return
    P, t = np.asarray(mesh.p, dtype=float), np.asarray(mesh.t)
    DL = np.asarray(basis.doflocs, dtype=float)
    h = float(np.abs(P).max()) + 1.0
    tol = 1e-9 * h
    bad = None
    for r, (ek, s_, j) in enumerate(layout):
        x = DL[:, ed[r]]                                        # (dim, nt)
        nanrow = bool(np.isnan(L[r]).any())
        if nanrow != bool(np.isnan(x).any()) or (nanrow and not np.isnan(x).all()):
            bad = bad or (r, ek, "nan-pattern")
            continue
        if nanrow:
            continue
        if ek == "v":
            verts = [s_]
        elif ek == "e":
            verts = list(rd.edges[s_])
        elif ek == "f":
            verts = list(dict.fromkeys(rd.facets[s_])) if dim >= 2 else [s_]
        else:
            verts = list(range(rd.nnodes))
        V = P[:, t[verts]]                                      # (dim, m, nt)
        lo, hi = V.min(axis=1) - tol, V.max(axis=1) + tol
        inbox = ((x >= lo) & (x <= hi)).all()
        ok = bool(inbox)
        if ok and ek in ("e", "f") and len(verts) <= dim:
            # affine hull of a simplex entity (edge, triangle): residual of the least-squares barycentric fit
            A = V[:, 1:, :] - V[:, :1, :]                       # (dim, m-1, nt)
            rhs = x - V[:, 0, :]
            for c in range(x.shape[1]):
                lam, *_ = np.linalg.lstsq(A[:, :, c], rhs[:, c], rcond=None)
                if np.abs(A[:, :, c] @ lam - rhs[:, c]).max() > 1e-8 * h:
                    ok = False
                    break
        if not ok and bad is None:
            bad = (r, ek, "off-entity")
    ctx.check("doflocs-agree", bad is None, mech=f"dof-location-not-on-its-entity:{rec.name.split('(')[0]}", first_bad=bad,
              mesh=type(mesh).__name__, elem=rec.name)
    ctx.reached("dof-locations-on-entities")


def check_doflocs(ctx, mc, rec, elem, basis):
    check_dofloc_entities(ctx, mc, rec, elem, basis)
    mesh, kind = mc.mesh, mc.kind
    ed = np.asarray(basis.dofs.element_dofs)
    counts = (elem.nodal_dofs, elem.edge_dofs if mc.dim == 3 else 0, elem.facet_dofs if mc.dim >= 2 else 0,
              elem.interior_dofs)
    tag = {"mesh": type(mesh).__name__, "elem": rec.name, "desc": mc.desc}
    mk = lambda what: f"{what}:{rec.name.split('(')[0]}"
    Lmodel = None
    if rec.name.startswith("Composite(") and hasattr(elem, "elems") and mc.dim >= 2:
        from .c03 import component_records
        if all(_locs_claimed(r) and hasattr(e, "doflocs") and not hasattr(e, "elems")
               for r, e in zip(component_records(rec), elem.elems)) and len(component_records(rec)) == len(elem.elems):
            Lmodel = composite_reference_locations(elem, mesh.elem.refdom, mc.dim)
            Le = np.asarray(elem.doflocs, dtype=float)
            ctx.check("doflocs-agree", Le.shape == Lmodel.shape and np.array_equal(np.isnan(Le), np.isnan(Lmodel))
                      and np.allclose(np.nan_to_num(Le), np.nan_to_num(Lmodel), atol=1e-14),
                      mech="composite-reference-locations-not-in-row-order", **tag)
            ctx.reached("composite-doflocs")
    # DOF locations, evaluated from every cell (not only the last writer)
    if _locs_claimed(rec) or Lmodel is not None:
        if hasattr(basis, "doflocs") and hasattr(elem, "doflocs"):
            L = np.asarray(elem.doflocs, dtype=float) if Lmodel is None else Lmodel  # (Nbfun, dim)
            if L.shape[0] == ed.shape[0]:
                if mc.order == 1:
                    X = GEO.map_points(kind, np.asarray(mesh.p), np.asarray(mesh.t), L.T)  # (dim, nt, Nbfun)
                else:
                    X = mesh.mapping().F(L.T)
                got = np.array(basis.doflocs[:, ed.T])  # (dim, nt, Nbfun)
                # bubbles and the like have no location: NaN in the element's table, NaN in the result
                nanmask = np.isnan(X)
                ctx.check("doflocs-agree", np.array_equal(np.isnan(got), nanmask), mech=mk("doflocs-nan"), **tag)
                got[nanmask] = 0.0
                X = np.where(nanmask, 0.0, X)
                h = float(np.abs(np.asarray(mesh.p)).max() + 1)
                multi = max(counts[1], counts[2]) > 1
                if multi and mc.order == 1 and kind in ("tri", "tet") and not (np.diff(np.asarray(mesh.t), axis=0) > 0).all() \
                        and (mc.desc.get("unsorted_by_caller") or mc.desc.get("derived") in ("oriented", "used-oriented", "unsorted")):
                    # the caller's explicit choice (sort_t=False / oriented()): the library documents that elements whose
                    # facet DOFs are ordered along the facet assume ascending cells (same reading as C03)
                    ctx.drop("unsorted-simplices:location-of-several-dofs-per-facet-is-outside-the-claim")
                    return basis
                ctx.close("doflocs-agree", got, X, rtol=1e-12, scale=h,
                          mech=("multi-dof-facet-orientation:" + type(mesh).__name__) if multi else mk("doflocs"), **tag)
    return basis


def check_assembly(ctx, mc, rec, basis, rng):
    import skfem
    mesh = mc.mesh
    nt = mesh.t.shape[1]
    # subset of cells
    sub = np.sort(rng.choice(nt, size=max(1, nt // 2), replace=False)).astype(np.int32)
    for which, elements in (("all", None), ("subset", sub)):
        b = basis if elements is None else skfem.CellBasis(mesh, rec.make(), elements=elements)
        A = skfem.BilinearForm(generic_mass).assemble(b)
        tag = {"mesh": type(mesh).__name__, "elem": rec.name, "cells": which}
        ctx.check("matrix-shape", A.shape == (b.N, b.N), mech="matrix-shape", shape=A.shape, N=int(b.N), **tag)
        ed = np.asarray(b.dofs.element_dofs)
        cells = range(nt) if elements is None else sub
        allowed = set()
        for c in cells:
            col = ed[:, c]
            for i in col:
                for j in col:
                    allowed.add((int(i), int(j)))
        A = A.tocoo()
        nz = {(int(i), int(j)) for i, j, v in zip(A.row, A.col, A.data) if v != 0}
        extra = nz - allowed
        ctx.check("sparsity-inside-cooccurrence", not extra, mech="sparsity", extra=lambda: sorted(extra)[:5],
                  nnz=len(nz), **tag)
    # rectangular: different test element when one is available
    others = [r for r in EL.of_kind(mc.kind) if r.name != rec.name and not r.skeleton and r.mesh_req == "any"
              and r.family == "h1" and rec.family == "h1" and "(" not in rec.name]
    if others:
        r2 = others[int(rng.integers(len(others)))]
        b2 = basis.with_element(r2.make())
        A = skfem.BilinearForm(generic_mass).assemble(basis, b2)
        ctx.check("matrix-shape", A.shape == (b2.N, basis.N), mech="matrix-shape-rectangular", shape=A.shape,
                  N_test=int(b2.N), N_trial=int(basis.N), trial=rec.name, test=r2.name)
        ctx.reached("rectangular-assembly")


def mesh_ok_for(rec, mc):
    if rec.mesh_req == "any":
        return True
    if rec.mesh_req == "affine":
        return mc.affine_cells and mc.order == 1
    if rec.mesh_req == "axis-parallel":
        return mc.desc.get("style") == "tensor" and mc.order == 1
    return False


def _thin_cells(mc):
    p, t = mc.mesh.p, mc.mesh.t[:3]
    q = np.abs(G.simplex_dets(p, t)) / G.simplex_hmax(p, t) ** 2
    return bool(q.min() < 2.0 ** -6)


def gen_case(kind):
    def fn(ctx, k):
        rng = ctx.rng()
        recs = EL.all_for_kind(kind)
        if kind in ("quad", "hex") and k % 3 == 0:
            mc = (G.quad_mesh if kind == "quad" else G.hex_mesh)(rng, style="tensor")
        else:
            mc = G.first_order(rng, kind)
        if kind in ("tri", "quad", "tet", "hex") and k % 4 == 3:
            mc = G.second_order(rng, mc)
        if mc.mesh.t.shape[1] > ctx.scale(60, 250):
            raise Skip("mesh-too-large")
        # every record of this kind once per few cases: rotate through the list
        per = ctx.scale(6, 10)
        start = (k * per) % len(recs)
        chosen = [recs[(start + i) % len(recs)] for i in range(per)]
        for rec in chosen:
            if not mesh_ok_for(rec, mc):
                ctx.drop("element-needs-other-mesh")
                continue
            if rec.family == "global" and mc.order != 1:
                continue
            if rec.family == "global" and kind == "tri" and _thin_cells(mc):
                # the library tabulates these elements by inverting a Vandermonde matrix of global monomials up to
                # degree 5 per cell: on slivers (det/h^2 < 2^-6) that matrix is singular to working precision, which
                # is a conditioning limit of the tabulation used as an instrument here, not a statement of C04
                ctx.drop("global-element-on-sliver")
                continue
            basis = check_dofs(ctx, mc, rec)
            if rec.family in ("h1", "h1vec", "composite", "hdiv", "hcurl") and not rec.skeleton:
                check_assembly(ctx, mc, rec, basis, rng)
            ctx.sample({"mesh": type(mc.mesh).__name__, "desc": mc.desc, "elem": rec.name, "N": int(basis.N),
                        "Nbfun": int(basis.Nbfun)}, per_family=1)
    return fn


def periodic_case(ctx, k):
    """Discontinuous/periodic topologies: the numbering follows the (identified) cell list."""
    import skfem
    from .c11 import periodic_mesh
    rng = ctx.rng()
    kind = ("line", "tri", "quad", "hex")[k % 4]
    mesh = periodic_mesh(rng, kind)
    recs = [r for r in EL.of_kind(kind) if r.mesh_req == "any" and not r.skeleton and r.family in ("h1", "hdiv", "hcurl")]
    for rec in [recs[i] for i in rng.choice(len(recs), size=min(4, len(recs)), replace=False)]:
        elem = rec.make()
        basis = skfem.CellBasis(mesh, elem)
        ok = check_dofs_structure(ctx, mesh, kind, mesh.dim(), elem, basis.dofs, rec,
                                  {"gen": "periodic", "class": type(mesh).__name__})
        if ok:
            A = skfem.BilinearForm(generic_mass).assemble(basis)
            ctx.check("matrix-shape", A.shape == (basis.N, basis.N), mech="matrix-shape:periodic", elem=rec.name)
            ed = np.asarray(basis.dofs.element_dofs)
            allowed = {(int(i), int(j)) for c in range(ed.shape[1]) for i in ed[:, c] for j in ed[:, c]}
            A = A.tocoo()
            extra = {(int(i), int(j)) for i, j, v in zip(A.row, A.col, A.data) if v != 0} - allowed
            ctx.check("sparsity-inside-cooccurrence", not extra, mech="sparsity:periodic", elem=rec.name)
        ctx.reached("periodic-topology")


def registry_complete(ctx, k):
    missing = EL.discover()
    ctx.check("registry-covers-exports", not missing, mech="unregistered-element", missing=missing)


SUITE = True   # thorough tier also runs the repository suite with this oracle attached (rv/suite_monitors.py)
FAMILIES = [Family("gen-" + kd, gen_case(kd), quick=q, thorough=th)
            for kd, q, th in (("line", 10, 160), ("tri", 28, 640), ("quad", 18, 480), ("tet", 14, 320),
                              ("hex", 12, 240), ("wedge", 4, 64))]
def composite_basis_case(ctx, k):
    """A basis combined from two, three or four component bases (b1 * b2 * ...): numbers 0..N-1 without gaps, the
    blocks of the components disjoint and in the order given, each block the component's own numbering; matrix shape
    and sparsity follow."""
    import skfem
    from skfem.assembly.basis.composite_basis import CompositeBasis
    rng = ctx.rng()
    kind = ("tri", "quad", "line", "tet")[k % 4]
    pool = {"tri": ["ElementTriP2", "ElementTriP1", "ElementTriP0", "ElementTriCR", "ElementTriP1"],
            "quad": ["ElementQuad2", "ElementQuad1", "ElementQuad0", "ElementQuad1"],
            "line": ["ElementLineP2", "ElementLineP1", "ElementLineP0", "ElementLineP1"],
            "tet": ["ElementTetP2", "ElementTetP1", "ElementTetP0", "ElementTetP1"]}[kind]
    ncomp = 2 + (k // 4) % 3
    names = [pool[int(i)] for i in rng.choice(len(pool), size=ncomp, replace=True)]
    mc = G.first_order(rng, kind)
    mesh = mc.mesh
    if mesh.t.shape[1] > 30:
        S = np.sort(rng.choice(mesh.t.shape[1], size=30, replace=False))
        p, t = G.clean(np.asarray(mesh.p), np.asarray(mesh.t)[:, S].astype(np.int64))
        mesh = type(mesh)(p, t)
    b0 = skfem.CellBasis(mesh, EL.by_name(names[0]).make(), intorder=4)
    comps = [b0] + [b0.with_element(EL.by_name(n).make()) for n in names[1:]]
    # (the operator form exists for two bases; chaining it nests composite bases, which the constructor refuses)
    use_op = ncomp == 2 and k % 2 == 0
    cb = (comps[0] * comps[1]) if use_op else CompositeBasis(*comps)
    tag = dict(kind=kind, components=names, how="operator-*" if use_op else "constructor", mesh=type(mesh).__name__)
    N = int(sum(b.N for b in comps))
    ed = np.asarray(cb.element_dofs)
    offs = np.concatenate([[0], np.cumsum([b.N for b in comps])])
    want = np.vstack([np.asarray(b.element_dofs) + offs[i] for i, b in enumerate(comps)])
    ctx.check("gap-free", int(cb.N) == N and ed.shape == want.shape and np.array_equal(np.unique(ed), np.arange(N)),
              mech="composite-basis:numbers-not-0..N-1", N=int(cb.N), want=N, unique=int(np.unique(ed).size), **tag)
    ctx.check("tables-agree-with-rows", ed.shape == want.shape and np.array_equal(ed, want),
              mech="composite-basis:blocks-not-the-components-in-order", **tag)
    A = skfem.BilinearForm(lambda *a: sum(np.array(x) for x in a[:ncomp]) * sum(np.array(x) for x in a[ncomp:2 * ncomp])).assemble(cb)
    ctx.check("matrix-shape", A.shape == (N, N), mech="composite-basis:matrix-shape", shape=A.shape, **tag)
    allowed = set()
    for c in range(want.shape[1]):
        col = want[:, c]
        allowed.update((int(i), int(j)) for i in col for j in col)
    A = A.tocoo()
    extra = {(int(i), int(j)) for i, j, v in zip(A.row, A.col, A.data) if v != 0} - allowed
    ctx.check("sparsity-inside-cooccurrence", not extra, mech="composite-basis:sparsity", extra=lambda: sorted(extra)[:5], **tag)
    # the @ operator (equal_dofnum): both blocks keep their own numbers (no offsets), N is the first basis' N; and a
    # composite of facet bases (the two sides of interior facets)
    if ncomp == 2 and comps[0].N == comps[1].N:
        cq = comps[0] @ comps[1]
        wantq = np.vstack([np.asarray(comps[0].element_dofs), np.asarray(comps[1].element_dofs)])
        ctx.check("tables-agree-with-rows", int(cq.N) == int(comps[0].N) and np.array_equal(np.asarray(cq.element_dofs), wantq),
                  mech="composite-basis:equal-dofnum-blocks", N=int(cq.N), **tag)
        ctx.reached("composite-basis-equal-dofnum")
    f2t_ = np.asarray(mesh.f2t)
    if kind != "line" and (f2t_[1] >= 0).any():
        e_ = EL.by_name(names[0]).make()
        f0 = skfem.InteriorFacetBasis(mesh, e_, side=0)
        f1 = skfem.InteriorFacetBasis(mesh, EL.by_name(names[0]).make(), side=1, quadrature=f0.quadrature)
        cf = f0 @ f1
        itf_ = np.nonzero(f2t_[1] >= 0)[0]
        edf = np.asarray(f0.dofs.element_dofs)
        wantf = np.vstack([edf[:, f2t_[0, itf_]], edf[:, f2t_[1, itf_]]])
        ctx.check("tables-agree-with-rows", int(cf.N) == int(f0.N) and np.array_equal(np.asarray(cf.element_dofs), wantf),
                  mech="composite-basis:two-sides-of-interior-facets", **tag)
        ctx.reached("composite-basis-of-facet-bases")
    ctx.reached(f"composite-basis-{min(ncomp, 3)}{'+' if ncomp >= 3 else ''}-components")
    ctx.nontrivial("composite-basis", kind, tuple(names))


def synthetic_counts(ctx, k):
    """Elements that exist only as DOF counts: random numbers of vertex / edge / facet / interior DOFs (0..4 each) on every
    mesh kind - the numbering needs nothing else of an element - and nested wrappers the zoo does not contain."""
    import skfem
    from skfem.element import Element
    rng = ctx.rng()
    kind = G.KINDS[k % len(G.KINDS)]
    mc = G.first_order(rng, kind)
    mesh = mc.mesh
    if mesh.t.shape[1] > 40:
        S = np.sort(rng.choice(mesh.t.shape[1], size=40, replace=False))
        p, t = G.clean(np.asarray(mesh.p), np.asarray(mesh.t)[:, S].astype(np.int64))
        mesh = type(mesh)(p, t)
    if (k // len(G.KINDS)) % 3 != 2:
        counts = [int(c) for c in rng.integers(0, 5, size=4)]
        if mc.dim == 1:
            counts[2] = 0                    # facet DOFs in 1-D are not numbered by the library
        if mc.dim < 3:
            counts[1] = 0
        if not any(counts):
            counts[0] = 1
        rdm = mesh.elem.refdom

        class Syn(Element):
            nodal_dofs, edge_dofs, facet_dofs, interior_dofs = counts
            refdom = rdm
            maxdeg = 1
            dofnames = ["n%d" % i for i in range(counts[0])] + ["e%d" % i for i in range(counts[1])] + \
                ["f%d" % i for i in range(counts[2])] + ["i%d" % i for i in range(counts[3])]
        elem = Syn()
        rec = _Named("Synthetic" + str(tuple(counts)))
        ctx.reached("synthetic-dof-counts")
    else:
        b = {"line": ("ElementLineP2", "ElementLineP1"), "tri": ("ElementTriP2", "ElementTriP1"), "quad": ("ElementQuad2", "ElementQuad1"),
             "tet": ("ElementTetP2", "ElementTetRT1"), "hex": ("ElementHex2", "ElementHexRT1"), "wedge": ("ElementWedge1", "ElementWedge1")}[kind]
        e_hi, e_lo = (lambda: EL.by_name(b[0]).make()), (lambda: EL.by_name(b[1]).make())
        nests = [("DG(Vector(hi))", lambda: skfem.ElementDG(skfem.ElementVector(e_hi()))),
                 ("Vector(DG(hi))", lambda: skfem.ElementVector(skfem.ElementDG(e_hi()))),
                 ("Composite(DG(lo),hi)", lambda: skfem.ElementComposite(skfem.ElementDG(e_lo()), e_hi())),
                 ("Composite(Vector(hi,2),lo)", lambda: skfem.ElementComposite(skfem.ElementVector(e_hi(), 2), e_lo())),
                 ("DG(Composite(hi,lo))", lambda: skfem.ElementDG(skfem.ElementComposite(e_hi(), e_lo())))]
        nm, mkf = nests[int(rng.integers(len(nests)))]
        try:
            elem = mkf()
        except Exception as e:
            raise Skip("wrapper-not-constructible:" + nm + ":" + type(e).__name__)
        rec = _Named(nm.replace("hi", b[0]).replace("lo", b[1]))
        ctx.reached("nested-wrappers")
    dofs = skfem.assembly.Dofs(mesh, elem)
    check_dofs_structure(ctx, mesh, kind, mc.dim, elem, dofs, rec, dict(mc.desc, synthetic=True))


def facet_sparsity(ctx, k):
    """Matrices assembled on facet bases can be nonzero only inside the cell the basis integrates on (f2t[side, facet]),
    and a rectangular matrix only at (test DOF of the cell, trial DOF of the cell)."""
    import skfem
    rng = ctx.rng()
    kind = ("tri", "quad", "tet", "hex")[k % 4]
    pool = [r for r in EL.all_for_kind(kind) if r.facet_basis and not r.skeleton and r.mesh_req == "any"]
    rec = pool[(k // 4) % len(pool)]
    mc = G.first_order(rng, kind)
    mesh = mc.mesh
    if mesh.t.shape[1] > 60:
        raise Skip("mesh-too-large")
    f2t = np.asarray(mesh.f2t)
    itr = np.nonzero(f2t[1] != -1)[0]
    bnd = np.nonzero(f2t[1] == -1)[0]
    variants = [("boundary", lambda e: skfem.FacetBasis(mesh, e), f2t[0, bnd])]
    if itr.size:
        F = rng.choice(itr, size=max(1, itr.size // 2), replace=False).astype(np.int32)
        variants.append(("facets-side1", lambda e: skfem.FacetBasis(mesh, e, facets=F, side=1), f2t[1, F]))
        variants.append(("interior-side0", lambda e: skfem.InteriorFacetBasis(mesh, e, facets=F, side=0), f2t[0, F]))
    h1 = [r for r in EL.of_kind(kind) if r.family == "h1" and not r.skeleton and r.mesh_req == "any" and r.facet_basis]
    for nm, mkb, cells in variants:
        try:
            ub = mkb(rec.make())
        except NotImplementedError:
            continue
        r2 = h1[int(rng.integers(len(h1)))]
        vb = ub.with_element(r2.make())
        for label, tb, A in (("square", ub, skfem.BilinearForm(generic_mass).assemble(ub)),
                             ("rectangular", vb, skfem.BilinearForm(lambda *a: sum_values(a[:len(ub.basis[0])]) * sum_values(a[len(ub.basis[0]):-1])).assemble(ub, vb))):
            edu = np.asarray(ub.dofs.element_dofs)[:, cells]
            edv = np.asarray(tb.dofs.element_dofs)[:, cells]
            allowed = set()
            for c in range(edu.shape[1]):
                allowed.update((int(i), int(j)) for i in edv[:, c] for j in edu[:, c])
            Ac = A.tocoo()
            nz = {(int(i), int(j)) for i, j, v in zip(Ac.row, Ac.col, Ac.data) if v != 0}
            ctx.check("matrix-shape", A.shape == (tb.N, ub.N), mech=f"facet-basis-matrix-shape:{nm}:{label}", shape=A.shape, elem=rec.name)
            ctx.check("sparsity-inside-cooccurrence", not (nz - allowed), mech=f"facet-basis-sparsity:{nm}:{label}",
                      extra=lambda: sorted(nz - allowed)[:5], elem=rec.name, test=r2.name, mesh=type(mesh).__name__)
    ctx.reached("facet-basis-sparsity")
    ctx.nontrivial("facet-sparsity", rec.name, kind)


def sum_values(fields):
    out = 0
    for f in fields:
        a = np.array(f)
        while a.ndim > 2:
            a = a.sum(axis=0)
        out = out + a
    return out


DERIVED_OPS = {"tri": ("oriented", "used-oriented", "mirrored", "used-mirrored", "restrict", "used-restrict", "adaptive",
                       "used-adaptive", "uniform", "used-uniform", "unsorted", "used-elsewhere", "used-translated"),
               "tet": ("oriented", "used-oriented", "adaptive", "used-adaptive", "restrict", "used-restrict", "uniform",
                       "used-uniform", "used-elsewhere", "used-scaled"),
               "quad": ("to_meshtri", "used-to_meshtri", "mirrored", "used-mirrored", "restrict", "used-restrict", "uniform",
                        "used-uniform"),
               "hex": ("to_meshtet", "used-to_meshtet", "restrict", "used-restrict", "uniform", "used-uniform")}


def derived_mesh_case(ctx, k):
    """"For every mesh": also the meshes the library returns from an operation on another mesh, in particular on a
    parent whose facet and edge tables were already built (a basis had been made on it): the numbering must follow the
    connectivity of the mesh it is asked for, not tables inherited from the parent.  Every operation in turn, with the
    elements that have facet or edge DOFs."""
    from . import c03
    rng = ctx.rng()
    kind = ("tri", "tet", "tri", "quad", "hex", "tet")[k % 6]
    ops = DERIVED_OPS[kind]
    op = ops[(k // 6) % len(ops)]
    small = {"tri": 40, "quad": 16, "tet": 6 if "uniform" in op else 12, "hex": 3 if "uniform" in op else 8}[kind]
    if kind == "tri" and "uniform" in op:
        small = 20
    for attempt in range(8):
        mc = G.first_order(ctx.rng("mesh", attempt), kind)
        if mc.mesh.t.shape[1] <= small:
            break
    else:
        mc0 = mc
        S = np.sort(rng.choice(mc0.mesh.t.shape[1], size=min(mc0.mesh.t.shape[1], small), replace=False))
        p, t = G.clean(np.asarray(mc0.mesh.p), np.asarray(mc0.mesh.t)[:, S].astype(np.int64))
        mc = G.MeshCase(type(mc0.mesh)(p, t), kind, 1, dict(mc0.desc, subset=True), affine_cells=mc0.affine_cells,
                        planar_faces=mc0.planar_faces)
    if op.startswith("used-") and k % 2:
        import skfem
        # "in use": a basis with facet (and edge) DOFs was built on the parent
        pe = EL.by_name({"tri": "ElementTriP2", "quad": "ElementQuad2", "tet": "ElementTetP2", "hex": "ElementHex2"}[kind]).make()
        skfem.CellBasis(mc.mesh, pe)
    mc2 = c03.derived(ctx, rng, mc, op=op)
    if mc2 is mc and op != "used-elsewhere":
        raise Skip("derived-operation-not-applied")
    kind2 = mc2.kind
    recs = [r for r in EL.all_for_kind(kind2) if mesh_ok_for(r, mc2) and r.family != "global"]
    ent = [r for r in recs if (r.make().facet_dofs or r.make().edge_dofs)]
    chosen = [ent[(k // 6 + i * 7) % len(ent)] for i in range(ctx.scale(4, 6))] + [recs[int(rng.integers(len(recs)))]]
    for rec in chosen:
        basis = check_dofs(ctx, mc2, rec)
        if rec.family in ("h1", "h1vec", "composite", "hdiv", "hcurl") and not rec.skeleton:
            check_assembly(ctx, mc2, rec, basis, rng)
    ctx.reached("derived-mesh")
    if op.startswith("used-"):
        ctx.reached("derived-from-a-parent-in-use")


FAMILIES.append(Family("derived-meshes", derived_mesh_case, 6 * 13, 6 * 13 * 6))
FAMILIES.append(Family("synthetic-counts", synthetic_counts, 36, 720))
FAMILIES.append(Family("facet-sparsity", facet_sparsity, 16, 320))
FAMILIES.append(Family("composite-basis", composite_basis_case, 24, 480))
FAMILIES.append(Family("periodic", periodic_case, 12, 240))
FAMILIES.append(Family("registry", registry_complete, 1, 1))
REQUIRED_REACH = ["rectangular-assembly", "periodic-topology", "composite-doflocs", "synthetic-dof-counts", "nested-wrappers",
                  "facet-basis-sparsity", "dof-locations-on-entities", "composite-basis-equal-dofnum",
                  "composite-basis-of-facet-bases", "derived-mesh", "derived-from-a-parent-in-use", "split-indices", "numbering-with-offset", "dg-wrapper-counted",
                  "dg-wrapper-of-facet-dofs-on-tensor-cells"]
