"""C18 Mesh surgery keeps geometry valid and carries tags to the same entities.

Oracles (rv/c18_ops.py, rv/c18_geom.py): exact Fraction measures (rv.exact.integrate_cell with the constant
polynomial), cells and tagged cells/facets compared through their vertex-coordinate sets (never by index),
the harness' own validity check and dictionary topology, own formulas for the coordinate transforms.
Every operation is judged relative to its input, so a sequence of operations is judged step by step.
"""
from __future__ import annotations

import numpy as np

from .. import c18_ops as O
from ..c18_geom import St, attach_tags, random_tags, tag_kinds
from ..engine import Family, Skip
from ..gen import meshes as G

PID = "C18"
RULE = ("random meshes of all six cell kinds (rv.gen.meshes: Delaunay/jittered/tensor/sheared/distorted/extruded, "
        "holes, renumbered, admissible local orders; second-order classes straight and curved) x random tag sets "
        "(subdomains, boundaries incl. interior facets and OrientedBoundary; int32/int64, unsorted) x cell subsets "
        "given as arrays/predicates/names/lists/tuples/sets x one operation or a sequence of 1-5 operations out of "
        "restrict, remove_elements, +, @ (2 and 3 meshes, mixed classes, partially coincident vertices, interface "
        "vertices that agree up to a few ulp only, exploded parts in which every cell owns its vertices, tagged "
        "operands), "
        "to_meshtri (both styles, with cellwise data), to_meshtet (hex, prism), extrusion by *, mirrored, translated, "
        "scaled, morphed, oriented, smoothed, trace, remove_unused_nodes, remove_duplicate_nodes (partially duplicated "
        "and fully exploded inputs, oriented tags on the copy of the owner cell and on both copies), with_boundaries/"
        "with_subdomains/with_defaults; inputs with unused vertices (meshes returned by @, inserted nodes) continued "
        "through restrict/trace/splits/extrusion/transforms; distinct key = (operation, mesh class, tag kinds, argument form); "
        "non-trivial iff some vertex becomes unused / is merged, some tagged entity is removed, the map is not the "
        "identity, or the mesh has >= 2 cells sharing entities")
TRACK = ["skfem.mesh.mesh:Mesh.restrict", "skfem.mesh.mesh:Mesh._reix", "skfem.mesh.mesh:Mesh.remove_elements",
         "skfem.mesh.mesh:Mesh.__add__", "skfem.mesh.mesh:Mesh.__matmul__", "skfem.mesh.mesh:Mesh.__rmatmul__",
         "skfem.mesh.mesh:Mesh._remove_duplicate_nodes", "skfem.mesh.mesh:Mesh.remove_unused_nodes",
         "skfem.mesh.mesh:Mesh.remove_duplicate_nodes", "skfem.mesh.mesh:Mesh.scaled",
         "skfem.mesh.mesh:Mesh.translated", "skfem.mesh.mesh:Mesh.mirrored", "skfem.mesh.mesh:Mesh.morphed",
         "skfem.mesh.mesh:Mesh.smoothed", "skfem.mesh.mesh:Mesh.trace", "skfem.mesh.mesh:Mesh.with_boundaries",
         "skfem.mesh.mesh:Mesh.with_subdomains", "skfem.mesh.mesh_quad_1:MeshQuad1.to_meshtri",
         "skfem.mesh.mesh_hex_1:MeshHex1.to_meshtet", "skfem.mesh.mesh_wedge_1:MeshWedge1.to_meshtet",
         "skfem.mesh.mesh_tri_1:MeshTri1.__mul__", "skfem.mesh.mesh_line_1:MeshLine1.__mul__",
         "skfem.mesh.mesh_simplex:MeshSimplex.oriented", "skfem.mesh.mesh_simplex:MeshSimplex.orientation"]
REQUIRED_MONITORS = ["result-valid", "cells-are-expected-point-sets", "measure-exact", "coordinates-transformed",
                     "index-map-new-to-old", "shared-vertex-structure", "subdomains-carried", "boundaries-carried",
                     "removed-tags-vanish", "split-children-tile-parent", "split-conforming", "extrusion-is-product",
                     "tags-assigned", "smoothing-averages-neighbours", "orientation-positive",
                     "trace-cells-are-facets", "orientation-carried"]
REQUIRED_REACH = ["op:restrict", "op:remove_elements", "op:add", "op:matmul", "matmul-3-meshes", "op:to_meshtri",
                  "op:to_meshtri-x", "op:to_meshtet:hex", "op:to_meshtet:wedge", "op:extrude:tri", "op:extrude:line",
                  "op:mirrored", "op:translated", "op:scaled", "op:morphed", "op:oriented", "op:smoothed", "op:trace",
                  "op:remove_unused_nodes", "op:remove_duplicate_nodes", "op:with_boundaries", "op:with_subdomains",
                  "vertex-becomes-unused", "tagged-entity-removed", "join-partially-coincident",
                  "coincident-vertices-merged", "sequence-of-3-or-more", "oriented-flips-some-cells",
                  "oriented-tag-judged:remove_duplicate_nodes", "oriented-tag-judged:remove_unused_nodes",
                  "oriented-tag-identical-judged", "join-nearly-coincident", "join-nearly-coincident:ulp-b",
                  "join-nearly-coincident:translate-back", "remove-duplicates-of-exploded-mesh",
                  "three-or-more-coincident-copies", "merged-facet-listed-from-both-sides",
                  "oriented-tag-lists-a-facet-from-both-sides", "add-exploded-parts", "matmul-exploded-parts", "matmul-chained",
                  "tagged-operands:add", "tagged-operands:matmul", "tagged-operands:extrude",
                  "tagged-operands:to_meshtet", "input-with-unused-vertices:from-matmul",
                  "input-with-unused-vertices:inserted", "unused-input:restrict", "unused-input:trace",
                  "unused-input:to_meshtri", "unused-input:to_meshtet", "unused-input:extrude",
                  "tags-judged-under-second-order-finding", "skeleton-judged-under-second-order-finding"]
ASSUMPTIONS = [
    "a facet index designates the vertex set mesh.facets[:, i] of the mesh that carries the tag (facet tables are "
    "judged by C11)",
    "second-order meshes: measures are not evaluated (vertex skeleton + node count + coordinates only)",
    "conformity of to_meshtet is demanded only for local vertex orders produced by the library's own constructors "
    "(init_tensor / refined / extrusion); for arbitrary admissible local orders crossed diagonals are counted, "
    "not judged",
    "orientation flags of OrientedBoundary tags are not demanded to survive operations that renumber facets "
    "(a plain array is accepted and counted); where the result tag IS an OrientedBoundary its flags are judged: "
    "entry (f, flag) designates the facet f seen from the cell mesh.f2t[flag, f] of the mesh that carries the tag "
    "(f2t is judged by C11); coordinate maps, smoothing and tagging must hand the two arrays over unchanged",
    "empty cell subsets and boolean masks are not generated (normalize_elements documents index arrays)",
]

REPORT_ONLY = O.REPORT_ONLY      # mechanism keys of suspected library defects that are counted, not reported
SECOND = ("tri", "quad", "tet", "hex")


def line_of(z):
    """Connected line mesh through the sorted points z (explicit connectivity)."""
    import skfem
    z = np.asarray(z, dtype=float)
    n = z.size
    return St(skfem.MeshLine1(z[None, :], np.vstack((np.arange(n - 1), np.arange(1, n)))), "line", 1)


def tagged_state(rng, mc, oriented=True):
    st = St(mc.mesh, mc.kind, mc.order)
    subs, bnds = random_tags(rng, st, oriented=oriented)
    m = attach_tags(mc.mesh, subs, bnds)
    s2 = St(m, mc.kind, mc.order)
    s2._P, s2._topo = st._P, st._topo
    return s2


def input_state(ctx, rng, kind, k, second_every=4, tags=True):
    mc = G.first_order(rng, kind, renum=bool(k % 4))
    if kind in SECOND and second_every and k % second_every == second_every - 1:
        mc = G.second_order(rng, mc)
    if mc.mesh.t.shape[1] > 400:
        raise Skip("mesh-too-large")
    return tagged_state(rng, mc) if tags else St(mc.mesh, mc.kind, mc.order)


# ---------------------------------------------------------------------- families
def fam_restrict(kind):
    def fn(ctx, k):
        rng = ctx.rng()
        st = input_state(ctx, rng, kind, k)
        out = O.op_restrict(ctx, rng, st, remove=(k % 3 == 2))
        if out is not None and out.nt > 1 and k % 2 == 0:
            O.op_restrict(ctx, rng, out)       # restriction of a restriction: tags and maps compose
    return fn


def fam_cleanup(ctx, k):
    rng = ctx.rng()
    kind = G.KINDS[k % 6]
    st = input_state(ctx, rng, kind, k // 6, second_every=5)
    if k % 2 == 0:
        O.op_remove_unused(ctx, rng, st)
    else:
        if k % 4 == 3 and st.nt > 150:
            raise Skip("mesh-too-large-to-explode")
        O.op_remove_duplicates(ctx, rng, st, explode=(k % 4 == 3))


def fam_add(bits):
    def fn(ctx, k):
        rng = ctx.rng()
        kind = G.KINDS[k % 6]
        if bits is not None and kind in SECOND and k % 12 >= 10:
            mc = G.second_order(rng, G.first_order(rng, kind), curved=False)
            A = St(mc.mesh, kind, 2)
            shift = [float(np.ptp(mc.mesh.p[0])) + 1.0] + [0.0] * (A.dim - 1)
            O.op_add(ctx, rng, A, St(mc.mesh.translated(shift), kind, 2))
            return
        st = input_state(ctx, rng, kind, 0, second_every=0, tags=False)
        mode = k % 4
        if mode == 3:
            # a mesh and its mirror image across an axis-parallel plane through its extreme vertices
            r = O.split_parts(rng, st, 1, bits)
            if r is None:
                raise Skip("coordinates-not-dyadic")
            A = r[0]
            d = int(rng.integers(A.dim))
            ext = float(np.asarray(A.mesh.p)[d].max())
            n = [0.0] * A.dim
            n[d] = 1.0
            pt = [0.0] * A.dim
            pt[d] = ext
            B = St(A.mesh.mirrored(tuple(n), tuple(pt)), kind, 1)
            O.op_add(ctx, rng, A, B)
            return
        nparts = 3 if mode == 2 else 2
        parts = O.split_parts(rng, st, nparts, bits)
        if parts is None:
            raise Skip("too-few-cells-or-not-dyadic")
        if bits is None and k % 3 == 0:
            # small physical scale: the absolute rounding of `+` is large relative to the mesh
            s = 2.0 ** -int(rng.integers(12, 28))
            parts = [St(type(p_.mesh)(np.asarray(p_.mesh.p) * s, np.asarray(p_.mesh.t)), kind, 1) for p_ in parts]
        if bits is not None and (k // 6) % 3 == 1:
            # the same operands far from the origin (2^14..2^24 lattice units along every axis, exactly representable
            # on the 2^-bits lattice): the merge tolerance of `+` has to follow the size of the joined mesh, not the
            # magnitude of its coordinates, or distinct neighbouring vertices collapse
            T = np.array([float(rng.choice([-1.0, 1.0])) * 2.0 ** int(rng.integers(14, 25)) for _ in range(parts[0].dim)])
            moved = [np.asarray(p_.mesh.p) + T[:, None] for p_ in parts]
            if all(np.array_equal(q - T[:, None], np.asarray(p_.mesh.p)) for q, p_ in zip(moved, parts)):
                parts = [St(type(p_.mesh)(q, np.asarray(p_.mesh.t)), kind, 1) for q, p_ in zip(moved, parts)]
                ctx.reached("add-far-from-origin")
            else:
                ctx.drop("far-translation-not-exact")
        if k % 5 == 4 and all(p_.nt <= 150 for p_ in parts):
            # every cell owns its vertices (>= 3 coincident copies inside one operand and across operands)
            parts = [O.exploded(rng, p_, tags=False)[0] for p_ in parts]
            ctx.reached("join-exploded-parts")
            ctx.reached("add-exploded-parts")
        if k % 2 == 0:
            # tagged operands (one common and several private names): a result tag, if any, designates the images
            parts = [O.operand_tags(rng, p_, "" if j == 0 else f"_{j}") for j, p_ in enumerate(parts)]
        acc = O.op_add(ctx, rng, parts[0], parts[1])
        if acc is not None and nparts == 3:
            O.op_add(ctx, rng, acc, parts[2])
    return fn


def fam_add_near(ctx, k):
    """`+` of parts whose interface vertices agree up to rounding only."""
    rng = ctx.rng()
    kind = G.KINDS[k % 6]
    st = input_state(ctx, rng, kind, 0, second_every=0, tags=False)
    parts = O.split_parts(rng, st, 2, 8)
    if parts is None:
        raise Skip("too-few-cells-or-not-dyadic")
    how = ("ulp-b", "translate-back", "ulp-both")[(k // 6) % 3]
    O.op_add_near(ctx, rng, parts[0], parts[1], how)


def _quads_as_triangles(st):
    import skfem
    t = st.t
    return St(skfem.MeshTri1(np.asarray(st.mesh.p).copy(), np.hstack((t[[0, 1, 3]], t[[1, 2, 3]]))), "tri", 1)


def fam_matmul(ctx, k):
    rng = ctx.rng()
    kind = G.KINDS[k % 6]
    if kind in SECOND and k % 18 >= 12 and k % 5 == 0:
        mc = G.second_order(rng, G.first_order(rng, kind), curved=False)
        A = St(mc.mesh, kind, 2)
        shift = [float(np.ptp(mc.mesh.p[0])) + 1.0] + [0.0] * (A.dim - 1)
        O.op_matmul(ctx, rng, [A, St(mc.mesh.translated(shift), kind, 2)], "mesh")
        return
    st = input_state(ctx, rng, kind, 0, second_every=0, tags=False)
    nparts = 2 + (k // 6) % 3
    parts = O.split_parts(rng, st, nparts, None)
    if parts is None:
        raise Skip("too-few-cells")
    if kind == "quad" and k % 2 == 0:
        # mixed classes: one part handed over as triangles
        j = int(rng.integers(len(parts)))
        parts[j] = _quads_as_triangles(parts[j])
    if kind == "hex" and k % 2 == 0:
        j = int(rng.integers(len(parts)))
        # mixed classes in 3-D: one part as tetrahedra on the same vertices (built directly)
        import skfem
        t = parts[j].t
        tt = np.hstack([t[list(r)] for r in ((0, 1, 3, 4), (0, 3, 2, 4), (2, 3, 4, 6), (3, 4, 6, 7), (3, 4, 5, 7),
                                             (1, 3, 4, 5))])
        parts[j] = St(skfem.MeshTet1(np.asarray(parts[j].mesh.p).copy(), tt), "tet", 1)
    form = "mesh" if nparts == 2 and k % 4 < 2 else ("rlist" if k % 4 == 3 else ("chain" if nparts > 2 and k % 4 == 1 else "list"))
    if k % 5 == 3 and all(p_.nt <= 150 for p_ in parts):
        parts = [O.exploded(rng, p_, tags=False)[0] for p_ in parts]
        ctx.reached("join-exploded-parts")
        ctx.reached("matmul-exploded-parts")
    if k % 2 == 1:
        parts = [O.operand_tags(rng, p_, "" if j == 0 else f"_{j}") for j, p_ in enumerate(parts)]
    O.op_matmul(ctx, rng, parts, form)


def fam_unused(ctx, k):
    """First-order inputs that carry vertices belonging to no cell (one of the meshes returned by `@`, or nodes
    inserted by the harness), continued through the operations: restrict must drop them and return the right
    vertex map, the others keep them (Mesh.is_valid() is False for such meshes by definition: own validity with
    unused nodes allowed).  Smoothing is excluded (0/0 at a vertex without neighbours is no defect)."""
    rng = ctx.rng()
    kind = G.KINDS[k % 6]
    j = k // 6
    ops = ["restrict", "remove_elements", "transform", "remove_unused"]
    if kind in ("tri", "quad", "tet", "hex"):
        ops.append("trace")
    if kind == "quad":
        ops += ["to_meshtri", "to_meshtri-x"]
    if kind in ("hex", "wedge"):
        ops.append("to_meshtet")
    if kind in ("tri", "line"):
        ops.append("extrude")
    if kind in ("line", "tri", "tet"):
        ops.append("oriented")
    op = ops[j % len(ops)]
    from_matmul = (j // len(ops)) % 2 == 0
    if from_matmul:
        st = input_state(ctx, rng, kind, 0, second_every=0, tags=False)
        if st.nt > 150:
            raise Skip("mesh-too-large")
        parts = O.split_parts(rng, st, 2 + j % 2, None)
        if parts is None:
            raise Skip("too-few-cells")
        outs = O.op_matmul(ctx, rng, parts, "list")
        if not outs:
            return
        s = O.operand_tags(rng, outs[int(rng.integers(len(outs)))])
    else:
        st = input_state(ctx, rng, kind, j, second_every=0)
        if st.nt > 150:
            raise Skip("mesh-too-large")
        s, _ = O.with_unused_nodes(rng, st)
    if not O.has_unused(s):
        ctx.drop("no-unused-vertex-in-the-input")
        return
    ctx.reached("input-with-unused-vertices")
    ctx.reached("input-with-unused-vertices:" + ("from-matmul" if from_matmul else "inserted"))
    ctx.reached("unused-input:" + op.split("-")[0])
    if op in ("restrict", "remove_elements"):
        if s.nt < 2:
            raise Skip("single-cell")
        out = O.op_restrict(ctx, rng, s, remove=(op == "remove_elements"))
        if out is not None and out is not s:
            ctx.check("result-valid", not O.has_unused(out), mech=f"{op}:unused-vertices-of-the-input-kept:{kind}",
                      cls=s.cls)
    elif op == "transform":
        out = O.op_transform(ctx, rng, s)
    elif op == "remove_unused":
        out = O.op_remove_unused(ctx, rng, s)
    elif op == "trace":
        out = O.op_trace(ctx, rng, s)
    elif op.startswith("to_meshtri"):
        out = O.op_to_meshtri(ctx, rng, s, style=("x" if op.endswith("x") else None))
    elif op == "to_meshtet":
        out = O.op_to_meshtet(ctx, rng, s, conform_expected=False)
    elif op == "extrude":
        z = np.unique(G.dyadic(rng, int(rng.integers(2, 4)), bits=4))
        z = z if z.size >= 2 else np.array([0.0, 1.0])
        out = O.op_extrude(ctx, rng, s, line_of(z))
    else:
        out = O.op_oriented(ctx, rng, s)
    if out is not None and out.nt > 1 and k % 2 == 0:
        O.op_restrict(ctx, rng, out)
    ctx.nontrivial("unused-input", kind, op, from_matmul)


def fam_split_quad(ctx, k):
    rng = ctx.rng()
    import skfem
    if k % 8 == 7:
        # second-order class: more nodes than vertices
        mc = G.quad_mesh(rng, style=str(rng.choice(["tensor", "sheared"])), renum=bool(k % 16 == 7))
        m2 = skfem.MeshQuad2.from_mesh(mc.mesh)
        O.op_to_meshtri(ctx, rng, St(m2, "quad", 2), style=("x" if k % 16 == 7 else None))
        return
    st = input_state(ctx, rng, "quad", k, second_every=0)
    if k % 5 == 4:
        st = St(attach_tags(st.mesh, {}, {}), "quad", 1)
    out = O.op_to_meshtri(ctx, rng, st, style=("x" if k % 2 else None))
    if out is not None and k % 3 == 0:
        O.op_restrict(ctx, rng, out)


def fam_split_3d(ctx, k):
    rng = ctx.rng()
    import skfem
    which = k % 4
    if which == 0:       # library-ordered hexahedra (tensor / refined / affine images / restrictions)
        ax = [np.unique(G.dyadic(rng, int(rng.integers(2, 4)) + 1, bits=5)) for _ in range(3)]
        ax = [a if a.size >= 2 else np.array([0.0, 0.5, 1.0]) for a in ax]
        m = skfem.MeshHex1.init_tensor(*ax) if k % 8 else skfem.MeshHex1().refined(1)
        st = St(m, "hex", 1)
        if rng.random() < 0.5:
            st = O.op_transform(ctx, rng, st, "morphed-affine") or st
        if rng.random() < 0.5 and st.nt > 2:
            st = O.op_restrict(ctx, rng, st, remove=False) or st
        if k % 8 >= 4:
            st = O.operand_tags(rng, st)
        O.op_to_meshtet(ctx, rng, st, conform_expected=True)
    elif which == 1:     # arbitrary admissible local orders
        st = St(G.hex_mesh(rng, renum=True).mesh, "hex", 1)
        if k % 8 >= 4:
            st = O.operand_tags(rng, st)
        O.op_to_meshtet(ctx, rng, st, conform_expected=False)
    elif which == 2:     # library-ordered prisms: extrusion of a triangle mesh
        tp, tt, _ = G.tri_mesh(rng, n=int(rng.integers(4, 12)), renum=bool(k % 8 == 2), holes=False, build=False)
        z = np.unique(G.dyadic(rng, int(rng.integers(2, 5)), bits=5))
        z = z if z.size >= 2 else np.array([0.0, 0.5, 1.0])
        base = St(skfem.MeshTri1(tp, tt), "tri", 1)
        line = line_of(z)
        w = O.op_extrude(ctx, rng, base, line)
        if w is not None:
            if k % 8 >= 4:
                w = O.operand_tags(rng, w)
            O.op_to_meshtet(ctx, rng, w, conform_expected=True)
    else:
        st = St(G.wedge_mesh(rng, renum=True).mesh, "wedge", 1)
        if k % 8 >= 4:
            st = O.operand_tags(rng, st)
        O.op_to_meshtet(ctx, rng, st, conform_expected=False)


def fam_extrude(ctx, k):
    rng = ctx.rng()
    import skfem
    line = St(G.line_mesh(rng, style=str(rng.choice(["sorted", "unsorted", "reversed", "graded", "components"]))).mesh,
              "line", 1)
    tag = (k // 3) % 2 == 1
    if tag:
        line = O.operand_tags(rng, line, "_l")
    if k % 3 == 2:
        base = St(G.line_mesh(rng).mesh, "line", 1)
        O.op_extrude(ctx, rng, O.operand_tags(rng, base) if tag else base, line)
        return
    mc = G.tri_mesh(rng, n=int(rng.integers(5, 16)), renum=bool(k % 2))
    if k % 9 == 0:
        base = St(G.second_order(rng, mc, curved=False).mesh, "tri", 2)
    else:
        base = St(mc.mesh, "tri", 1)
        if tag:
            base = O.operand_tags(rng, base)
    O.op_extrude(ctx, rng, base, line, swap=bool(k % 4 == 1))


def fam_transform(ctx, k):
    rng = ctx.rng()
    kind = G.KINDS[k % 6]
    st = input_state(ctx, rng, kind, k // 6, second_every=3)
    which = O.TRANSFORMS[(k // 6) % len(O.TRANSFORMS)]
    out = O.op_transform(ctx, rng, st, which)
    if kind in ("line", "tri", "tet"):
        O.op_oriented(ctx, rng, out or st)
    if kind != "line" and k % 2 == 0:
        O.op_smoothed(ctx, rng, st)


def fam_trace(ctx, k):
    rng = ctx.rng()
    kind = ("tri", "quad", "tet", "hex")[k % 4]
    st = input_state(ctx, rng, kind, k // 4, second_every=0)
    O.op_trace(ctx, rng, st)


def fam_tagging(ctx, k):
    rng = ctx.rng()
    kind = G.KINDS[k % 6]
    st = input_state(ctx, rng, kind, k // 6, second_every=4, tags=bool(k % 2))
    out = O.op_with_tags(ctx, rng, st)
    if k % 3 == 0 and st.order == 1:
        O.op_with_defaults(ctx, rng, st)
    if out is not None and st.order == 1 and out.nt > 1:
        O.op_restrict(ctx, rng, out)           # tags made by predicates are carried like any other


def _round8_stable(st):
    """Joins merge vertices that agree to 8 decimals relative to the extent of the joined mesh: the exact-union
    oracle applies when distinct vertices are further apart than that (1e-6 of the extent, with margin)."""
    p = np.asarray(st.mesh.p)
    ext = float(np.ptp(p, axis=1).max()) if p.size else 0.0
    if ext <= 0:
        return False
    exact = np.unique(p, axis=1).shape[1]
    coarse = np.unique(np.round(p / (2.0 * ext), 6), axis=1).shape[1]
    return exact == coarse


def chain_step(ctx, rng, st):
    kind = st.kind
    ops = ["restrict", "restrict", "transform", "transform", "with_tags", "remove_unused", "remove_duplicates"]
    if kind in ("line", "tri", "tet"):
        ops.append("oriented")
    if kind != "line":
        ops.append("smoothed")
    if kind == "quad":
        ops += ["to_meshtri", "to_meshtri-x"]
    if kind in ("hex", "wedge"):
        ops.append("to_meshtet")
    if kind == "tri" and st.nt <= 40:
        ops.append("extrude")
    if kind == "line":
        ops.append("extrude")
    if st.nt <= 150:
        ops.append("add-shifted-copy")
    op = str(rng.choice(ops))
    if op == "restrict":
        if st.nt < 2:
            return st, op
        return O.op_restrict(ctx, rng, st), op
    if op == "transform":
        return O.op_transform(ctx, rng, st), op
    if op == "with_tags":
        return O.op_with_tags(ctx, rng, st), op
    if op == "remove_unused":
        return O.op_remove_unused(ctx, rng, st), op
    if op == "remove_duplicates":
        return O.op_remove_duplicates(ctx, rng, st), op
    if op == "oriented":
        return O.op_oriented(ctx, rng, st), op
    if op == "smoothed":
        return O.op_smoothed(ctx, rng, st), op
    if op in ("to_meshtri", "to_meshtri-x"):
        return O.op_to_meshtri(ctx, rng, st, style=("x" if op.endswith("x") else None)), op
    if op == "to_meshtet":
        return O.op_to_meshtet(ctx, rng, st, conform_expected=False), op
    if op == "extrude":
        import skfem
        z = np.unique(G.dyadic(rng, int(rng.integers(2, 4)), bits=4))
        z = z if z.size >= 2 else np.array([0.0, 1.0])
        return O.op_extrude(ctx, rng, st, line_of(z)), op
    if op == "add-shifted-copy":
        if not _round8_stable(st):
            ctx.drop("add-in-sequence-skipped(distinct-vertices-closer-than-1e-6-of-extent)")
            return st, "skipped-add"
        p = np.asarray(st.mesh.p)
        d = int(rng.integers(st.dim))
        shift = [0.0] * st.dim
        shift[d] = float(np.ceil(np.ptp(p[d]))) + float(rng.integers(0, 2))   # touching or disjoint boxes
        B = St(st.mesh.translated(tuple(shift)), st.kind, 1)
        if not _round8_stable(B):
            ctx.drop("add-in-sequence-skipped(distinct-vertices-closer-than-1e-6-of-extent)")
            return st, "skipped-add"
        return O.op_add(ctx, rng, St(attach_tags(st.mesh, {}, {}), st.kind, 1), B), op
    raise ValueError(op)


def fam_chains(ctx, k):
    rng = ctx.rng()
    kind = G.KINDS[k % 6]
    st = input_state(ctx, rng, kind, k // 6, second_every=0)
    if st.nt > 120:
        raise Skip("mesh-too-large-for-a-sequence")
    n = int(rng.integers(1, 6))
    done = []
    for _ in range(n):
        nxt, op = chain_step(ctx, rng, st)
        done.append(op)
        if nxt is None:
            break
        st = nxt
    if len(done) >= 3:
        ctx.reached("sequence-of-3-or-more")
    ctx.nontrivial("sequence", kind, tuple(done))
    ctx.sample({"sequence": done, "start": kind, "end": st.cls, "cells": st.nt})


def fam_directed(ctx, k):
    """Literal cases: the documented examples and the minimal witnesses of the recorded mechanisms."""
    import skfem
    rng = ctx.rng()
    if k == 0:      # docstring of Mesh.mirrored
        m1 = skfem.MeshTet()
        m = m1 + m1.mirrored((1, 0, 0)) + m1.mirrored((0, 1, 0)) + m1.mirrored((0, 0, 1))
        ctx.check("shared-vertex-structure", (int(m.nvertices), int(m.nelements)) == (20, 20),
                  mech="add:documented-example", got=(int(m.nvertices), int(m.nelements)))
        A = St(m1, "tet", 1)
        O.op_add(ctx, rng, A, St(m1.mirrored((1, 0, 0)), "tet", 1))
    elif k == 1:    # three meshes through @ (Appendix A11)
        m0 = skfem.MeshTri()
        parts = [St(m0, "tri", 1), St(m0.translated((1, 0)), "tri", 1), St(m0.refined().translated((2, 0)), "tri", 1)]
        O.op_matmul(ctx, rng, parts, "list")
    elif k == 2:
        parts = [St(skfem.MeshQuad().refined(), "quad", 1), St(skfem.MeshTri().translated((1, 0)), "tri", 1),
                 St(skfem.MeshQuad().translated((2, 0)), "quad", 1), St(skfem.MeshTri().translated((3, 0)), "tri", 1)]
        O.op_matmul(ctx, rng, parts, "rlist")
    elif k == 3:    # unit meshes of the library, default numbering
        for cls, kind in ((skfem.MeshLine, "line"), (skfem.MeshTri, "tri"), (skfem.MeshQuad, "quad"),
                          (skfem.MeshTet, "tet"), (skfem.MeshHex, "hex"), (skfem.MeshWedge1, "wedge")):
            m = cls().refined(1) if kind != "wedge" else skfem.MeshTri().refined(1) * skfem.MeshLine().refined(1)
            st = tagged_state(rng, G.MeshCase(m, kind, 1, {}))
            O.op_restrict(ctx, rng, st)
            O.op_remove_duplicates(ctx, rng, st)
            O.op_remove_duplicates(ctx, rng, st, explode=True)
    elif k == 4:
        q = skfem.MeshQuad().refined(2)
        st = tagged_state(rng, G.MeshCase(q, "quad", 1, {}))
        O.op_to_meshtri(ctx, rng, st, style="x")
        O.op_to_meshtri(ctx, rng, St(skfem.MeshQuad2.from_mesh(q), "quad", 2), style="x")
    elif k == 5:
        tri = skfem.MeshTri().refined(1)
        gap = skfem.MeshLine(np.array([0.0, 1.0, 2.0, 3.0])).remove_elements(np.array([1]))
        O.op_extrude(ctx, rng, St(tri, "tri", 1), St(gap, "line", 1))
        O.op_extrude(ctx, rng, St(skfem.MeshTri2.from_mesh(tri), "tri", 2), St(skfem.MeshLine(), "line", 1))
    elif k == 6:    # micro-scale geometry through +
        m = skfem.MeshTri().refined(1).scaled(2.0 ** -20)
        O.op_add(ctx, rng, St(m, "tri", 1), St(m.translated((2.0 ** -20, 0.0)), "tri", 1))
    elif k == 8:    # a tag that lost all its facets, then a split, then another restriction
        q = skfem.MeshQuad().refined(2).with_boundaries({"left": lambda x: x[0] == 0.0})
        r = q.restrict(lambda x: x[0] > 0.5)
        out = O.op_to_meshtri(ctx, rng, St(r, "quad", 1))
        if out is not None:
            O.op_restrict(ctx, rng, out)
    elif k == 7:
        for cls, kind in ((skfem.MeshTri2, "tri"), (skfem.MeshQuad2, "quad"), (skfem.MeshTet2, "tet"),
                          (skfem.MeshHex2, "hex")):
            base = {"tri": skfem.MeshTri, "quad": skfem.MeshQuad, "tet": skfem.MeshTet, "hex": skfem.MeshHex}[kind]
            st = St(cls.from_mesh(base().refined(1)), kind, 2)
            O.op_restrict(ctx, rng, st, remove=False)
            O.op_smoothed(ctx, rng, st)


def fam_docs(ctx, k):
    """Meshes shipped with the documentation (gmsh/vtk/json, tagged, arbitrary local orientation)."""
    import glob
    import os
    import skfem
    from ..engine import REPO
    files = sorted(glob.glob(os.path.join(REPO, G.DOCS_MESHES, "*")))
    if k >= len(files):
        return
    f = files[k]
    rng = ctx.rng()
    try:
        m = skfem.io.json.from_file(f) if f.endswith(".json") else skfem.Mesh.load(f)
        kind = G.kind_of(m)
    except Exception:
        ctx.drop("docs-mesh-unreadable-or-unknown-kind")
        return
    if m.t.shape[1] > ctx.scale(1500, 6000):
        ctx.drop("docs-mesh-too-large")
        return
    # gmsh files carry metadata entries such as 'gmsh:bounding_entities' next to the tags: only genuine
    # index arrays are tags
    from ..c18_geom import index_problems, own_validity
    subs = {n: v for n, v in (m.subdomains or {}).items() if index_problems(v, m.t.shape[1]) is None and len(v)}
    bnds = {n: v for n, v in (m.boundaries or {}).items()
            if index_problems(v, m.facets.shape[1]) is None and len(v)}
    order = G.order_of(m)
    if order == 1 and np.unique(m.t).size != m.p.shape[1]:
        ctx.reached("docs-mesh-with-unused-nodes")
        m = attach_tags(m, subs, bnds).remove_unused_nodes()     # judged in family `cleanup`
    st = St(attach_tags(m, subs, bnds), kind, order)
    if own_validity(st, need_measure=False):
        ctx.drop("docs-mesh-not-a-valid-input")
        return
    m = st.mesh
    ctx.reached("docs-mesh-loaded")
    if st.order == 1:
        for name in sorted(subs)[:2]:
            if 0 < len(subs[name]) < st.nt:
                out = m.restrict(name)
                ctx.reached("docs-restrict-by-name")
        O.op_restrict(ctx, rng, st)
        O.op_transform(ctx, rng, st)
        if kind == "quad":
            O.op_to_meshtri(ctx, rng, st, style=("x" if k % 2 else None))
        if kind in ("hex", "wedge"):
            O.op_to_meshtet(ctx, rng, st)
        if kind in ("tri", "tet"):
            O.op_oriented(ctx, rng, st)
    else:
        O.op_transform(ctx, rng, st)
    ctx.nontrivial("docs", os.path.basename(f))


QB = {"quick": 75, "thorough": 540}
QUICK = {"restrict-line": 40, "restrict-tri": 90, "restrict-quad": 70, "restrict-tet": 40, "restrict-hex": 50,
         "restrict-wedge": 40, "cleanup": 150, "join-add": 150, "join-add-fine-coordinates": 40, "join-add-nearly-coincident": 90,
         "join-matmul": 150, "inputs-with-unused-vertices": 150,
         "split-quad": 100, "split-3d": 60, "extrude": 70, "transform": 240, "trace": 70, "tagging": 100,
         "sequences": 250}
THOROUGH_FACTOR = 40
_FNS = {"cleanup": fam_cleanup, "join-add": fam_add(8), "join-add-nearly-coincident": fam_add_near,
        "inputs-with-unused-vertices": fam_unused, "join-add-fine-coordinates": fam_add(None),
        "join-matmul": fam_matmul, "split-quad": fam_split_quad, "split-3d": fam_split_3d, "extrude": fam_extrude,
        "transform": fam_transform, "trace": fam_trace, "tagging": fam_tagging, "sequences": fam_chains}
_FNS.update({"restrict-" + kd: fam_restrict(kd) for kd in G.KINDS})
FAMILIES = [Family(name, _FNS[name], quick=q, thorough=q * THOROUGH_FACTOR, budget=QB) for name, q in QUICK.items()]
FAMILIES.append(Family("directed", fam_directed, 9, 9, budget=QB))
FAMILIES.append(Family("docs-meshes", fam_docs, 40, 40, budget={"quick": 60, "thorough": 300}))
