"""C06 Galerkin exactness end to end (patch test and projection identity).

Observed executions of the whole pipeline assemble -> get_dofs -> boundary data -> condense -> solve on
manufactured polynomial solutions lying in the finite element space.  Data (source term, Neumann flux,
traction) are derived from the solution by exact polynomial calculus (rv.exact); the error is measured
with a Functional of order 2k+2 and must be at rounding level (1e-8 relative leaves six digits of slack,
DESIGN C06).  Projection identities: project(interpolate(x)) == x on whole mesh / restricted basis / the
elements= keyword (for x supported there) / boundary facets / curved second-order meshes.
"""
from __future__ import annotations

from fractions import Fraction

import numpy as np

from ..engine import Family, Skip
from ..gen import elements as EL
from ..gen import meshes as G
from .. import exact as X

PID = "C06"
RULE = ("random irregular meshes with affine cells (Delaunay/graded/renumbered simplices, parallelogram and box cells; general "
        "convex quadrilaterals/hexahedra for degree-one solutions) x polynomial-complete elements with their degree x random "
        "polynomial solutions of exactly that degree with dyadic coefficients x problem (Poisson, reaction-diffusion, linear "
        "elasticity) x random split of the boundary facets into Dirichlet and Neumann parts x way of prescribing boundary "
        "values (nodal values / boundary L2 projection); projection identities on whole mesh, cell subsets, boundary parts "
        "and curved meshes; distinct key = (problem, element, mesh class, BC split kind); non-trivial iff both boundary parts "
        "are non-empty or the mesh has an interior vertex, and the solution is not in a lower-degree space")
TRACK = ["skfem.assembly.basis.cell_basis:CellBasis.project", "skfem.assembly.basis.facet_basis:FacetBasis.project",
         "skfem.assembly.basis.abstract_basis:AbstractBasis._projection", "skfem.assembly.basis.abstract_basis:AbstractBasis.get_dofs",
         "skfem.utils:condense", "skfem.utils:solve", "skfem.utils:solve_linear", "skfem.models.elasticity:linear_elasticity"]
REQUIRED_MONITORS = ["patch-test-poisson", "patch-test-reaction-diffusion", "patch-test-elasticity",
                     "dirichlet-values-reproduced", "projection-identity-whole", "projection-identity-restricted-basis",
                     "projection-identity-elements-keyword", "projection-identity-boundary", "projection-identity-curved",
                     "projection-identity-callable"]
REQUIRED_REACH = ["mixed-dirichlet-neumann", "pure-dirichlet", "boundary-projection-used", "nodal-values-used",
                  "non-affine-degree-one", "graded-mesh", "vector-element-projection", "hdiv-hcurl-projection",
                  "neumann-part-as-overlapping-tags", "constrained-by-enforce-then-condense",
                  "two-splits-on-one-assembled-system", "complex-valued-projection", "complex-valued-boundary-projection",
                  "solution-of-small-magnitude", "straight-second-order-mesh", "projection-of-callable", "model-forms:poisson",
                  "model-forms:lame-parameters", "model-forms:plane-stress", "mesh-in-other-length-units",
                  "projection-on-mesh-in-other-length-units", "boundary-parts-by-default-side-names",
                  "boundary-parts-by-region-predicates", "dirichlet-set-as-union-of-views"]

# (record name, degree of the manufactured solution)
COMPLETE = {
    "line": [("ElementLineP1", 1), ("ElementLineP2", 2), ("ElementLineMini", 1), ("ElementLinePp(3)", 3), ("ElementLinePp(4)", 4)],
    "tri": [("ElementTriP1", 1), ("ElementTriP2", 2), ("ElementTriP3", 3), ("ElementTriP4", 4), ("ElementTriP1B", 1),
            ("ElementTriP2B", 2)],
    "quad": [("ElementQuad1", 1), ("ElementQuad2", 2), ("ElementQuadS2", 2), ("ElementQuadP(3)", 3), ("ElementQuadP(5)", 5)],
    "tet": [("ElementTetP1", 1), ("ElementTetP2", 2), ("ElementTetMini", 1), ("ElementTetCCR", 2)],
    "hex": [("ElementHex1", 1), ("ElementHex2", 2), ("ElementHexS2", 2)],
    "wedge": [("ElementWedge1", 1)],
}


def rand_poly(rng, d, k, exact_degree=True):
    p = {}
    for e in X.monomials_total(d, k):
        if rng.random() < 0.7 or sum(e) == k:
            c = Fraction(int(rng.integers(-8, 9)), 4)
            if c:
                p[e] = c
    if exact_degree and not any(sum(e) == k for e in p):
        e = [0] * d
        e[int(rng.integers(d))] = k
        p[tuple(e)] = Fraction(3, 4)
    return p


def np_poly(p):
    def f(x):
        return X.peval_np(p, np.asarray(x))
    return f


def laplacian(p, d):
    out = {}
    for i in range(d):
        out = X.padd(out, X.pdiff(X.pdiff(p, i), i))
    return out


def affine_mesh(ctx, rng, kind, k):
    """Meshes on which polynomials of the element's degree lie in the space: affine cells."""
    if kind == "quad":
        mc = G.quad_mesh(rng, style=str(rng.choice(["tensor", "sheared"])))
    elif kind == "hex":
        mc = G.hex_mesh(rng, style=str(rng.choice(["tensor", "parallelepiped"])))
    elif kind in ("tri", "tet"):
        style = str(rng.choice(["jitter", "tensor", "random"] if kind == "tet" else ["jitter", "random", "tensor", "lshaped", "symmetric"]))
        mc = (G.tet_mesh if kind == "tet" else G.tri_mesh)(rng, style=style, holes=False)
    else:
        mc = G.first_order(rng, kind)
    if mc.desc.get("style") == "graded":
        ctx.reached("graded-mesh")
    return mc


def boundary_split(rng, mesh, allow_empty_dirichlet):
    bf = np.asarray(mesh.boundary_facets())
    r = rng.random()
    if r < 0.25:
        D = bf
    elif r < 0.35 and allow_empty_dirichlet:
        D = bf[:0]
    else:
        m = rng.random(bf.size) < rng.uniform(0.3, 0.7)
        if not m.any():
            m[int(rng.integers(bf.size))] = True
        D = bf[m]
    N = np.setdiff1d(bf, D)
    return D.astype(np.int32), N.astype(np.int32)


def l2_error(basis_hi, xh, u_fn):
    import skfem

    def integrand(w):
        return (w["uh"] - u_fn(w.x)) ** 2
    def norm(w):
        return u_fn(w.x) ** 2
    e2 = skfem.Functional(integrand).assemble(basis_hi, uh=basis_hi.interpolate(xh))
    n2 = skfem.Functional(norm).assemble(basis_hi)
    return float(np.sqrt(abs(e2))), float(np.sqrt(abs(n2)))


def has_interior_vertex(mesh):
    return len(mesh.interior_nodes()) > 0


def scalar_patch(ctx, k, kind):
    import skfem
    from skfem.helpers import dot, grad
    rng = ctx.rng()
    recs = COMPLETE[kind]
    name, deg = recs[k % len(recs)]
    rec = EL.by_name(name)
    # options drawn from the rng, not from k (k also selects the element: shared factors would freeze combinations)
    opt_general, opt_small, opt_tags, opt_two, opt_enf, opt_o2 = (bool(rng.random() < q) for q in (0.5, 0.2, 0.4, 0.5, 0.5, 0.25))
    general = (kind in ("quad", "hex") and deg == 1 and opt_general)
    if general:
        mc = G.quad_mesh(rng, style="distorted") if kind == "quad" else G.hex_mesh(rng, style=str(rng.choice(["extruded", "jiggled"])))
        ctx.reached("non-affine-degree-one")
    else:
        mc = affine_mesh(ctx, rng, kind, k)
    if opt_o2 and not general and kind in ("tri", "quad", "tet", "hex") and rec.name in (
            "ElementTriP1", "ElementTriP2", "ElementQuad1", "ElementQuad2", "ElementTetP1", "ElementTetP2", "ElementHex1", "ElementHex2") \
            and mc.mesh.t.shape[1] <= 60:
        # the same affine cells described by a straight second-order mesh: isoparametric maps, normals, Newton inverse
        mc = G.second_order(rng, mc, curved=False)
        ctx.reached("straight-second-order-mesh")
    mesh = mc.mesh
    if mesh.t.shape[1] > ctx.scale(120, 400):
        raise Skip("mesh-too-large")
    d = mc.dim
    u = rand_poly(rng, d, deg)
    # the same problem with the mesh given in other length units (millimetre parts in metres, kilometres in metres): the
    # exact solution is the same polynomial of x / unit (exact: the unit is a power of two), the reaction coefficient scales
    # by 1/unit^2; dealt out in turn (k also selects element and problem, so the factor is divided out first)
    uexp = (0, -14, 0, 12, -24)[(k // (2 * len(recs))) % 5]
    unit = 2.0 ** uexp
    if uexp:
        from dataclasses import replace as _replace
        mesh = _replace(mesh, doflocs=np.asarray(mesh.doflocs) * unit)
        mc = G.MeshCase(mesh, mc.kind, mc.order, dict(mc.desc, unit=f"2^{uexp}"), affine_cells=mc.affine_cells, straight=mc.straight,
                        planar_faces=mc.planar_faces)
        u = {e: cf * Fraction(2) ** (-uexp * sum(e)) for e, cf in u.items()}
        ctx.reached("mesh-in-other-length-units")
    mag = 1.0
    if opt_small:
        # the same problem in small units of the unknown (nanometre displacements in metres): linear, hence scale free
        mag = 2.0 ** -32
        u = X.pscale(u, Fraction(mag))
        ctx.reached("solution-of-small-magnitude")
    reaction = (k // len(recs)) % 2 == 1
    c = float(rng.integers(1, 5)) / unit ** 2 if reaction else 0.0
    f = X.padd(X.pscale(laplacian(u, d), -1), X.pscale(u, Fraction(c)))
    gradu = [X.pdiff(u, i) for i in range(d)]
    u_fn, f_fn = np_poly(u), np_poly(f)
    g_fns = [np_poly(g) for g in gradu]
    elem = rec.make()
    order = max(2 * elem.maxdeg, 2 * deg + 2)
    order = min(order, {"tri": 19, "tet": 8}.get(kind, order))
    basis = skfem.CellBasis(mesh, elem, intorder=order)
    if rng.random() < 0.5 and not getattr(elem, "elems", None):
        # the library's model forms instead of the harness' own integrand
        from skfem.models.poisson import laplace, mass
        A = laplace.assemble(basis) + c * mass.assemble(basis)
        ctx.reached("model-forms:poisson")
    else:
        A = skfem.BilinearForm(lambda u_, v, w: dot(grad(u_), grad(v)) + c * u_ * v).assemble(basis)
    b = skfem.LinearForm(lambda v, w: f_fn(w.x) * v).assemble(basis)
    b0 = b
    Dfac, Nfac = boundary_split(rng, mesh, allow_empty_dirichlet=reaction)
    if kind == "wedge" and Nfac.size:
        Dfac, Nfac = np.asarray(mesh.boundary_facets()).astype(np.int32), np.zeros(0, dtype=np.int32)  # no FacetBasis for prisms
    # box-shaped domains: the boundary parts given by the NAMES the library attaches to the sides ('left', 'top', ...), the
    # exact data integrated where the harness' own geometry says the sides are
    Dsel, Nsel = Dfac, Nfac
    if d >= 2 and kind != "wedge" and mc.order == 1 and rng.random() < 0.6:
        Pm, Fm = np.asarray(mesh.p), np.asarray(mesh.facets)
        bfm = np.asarray(mesh.boundary_facets())
        sides = {}
        for ax_, (lo_n, hi_n) in enumerate((("left", "right"), ("bottom", "top"), ("front", "back"))[:d]):
            for nm_, ext_ in ((lo_n, Pm[ax_].min()), (hi_n, Pm[ax_].max())):
                sides[nm_] = np.array([f_ for f_ in bfm if (Pm[ax_, Fm[:, f_]] == ext_).all()], dtype=np.int32)
        if sum(v.size for v in sides.values()) == bfm.size and all(v.size for v in sides.values()):
            tagged = mesh.with_defaults()
            if tagged.boundaries is not None and all(n_ in tagged.boundaries for n_ in sides):
                mesh = tagged
                basis = skfem.CellBasis(mesh, elem, intorder=order)
                nm_all = list(sides)
                pick = rng.random(len(nm_all)) < 0.5
                if not pick.any() and not reaction:
                    pick[int(rng.integers(len(nm_all)))] = True
                Dn = [n_ for n_, p_ in zip(nm_all, pick) if p_]
                Nn = [n_ for n_, p_ in zip(nm_all, pick) if not p_]
                Dfac = np.concatenate([sides[n_] for n_ in Dn]).astype(np.int32) if Dn else np.zeros(0, dtype=np.int32)
                Nfac = np.concatenate([sides[n_] for n_ in Nn]).astype(np.int32) if Nn else np.zeros(0, dtype=np.int32)
                Dsel, Nsel = (Dn if Dn else Dfac), (Nn if Nn else Nfac)
                ctx.reached("boundary-parts-by-default-side-names")
    union_views = False
    if isinstance(Dsel, list) and len(Dsel) >= 2 and rng.random() < 0.5:
        union_views = True                      # the Dirichlet set as get_dofs(a) | get_dofs(b) | ... (see below)
    if not isinstance(Dsel, list) and not isinstance(Nsel, list) and d >= 2 and kind != "wedge" and rng.random() < 0.3:
        # the two boundary parts named by REGION predicates on facet midpoints (x0 beyond / before a value between two
        # midpoints): with_boundaries tags boundary facets only; the exact data integrated over the harness' own split
        Pm, Fm = np.asarray(mesh.p), np.asarray(mesh.facets)
        bfm = np.asarray(mesh.boundary_facets())
        nvf = Fm.shape[0]
        mx = Pm[0][Fm[:, bfm]].mean(axis=0)
        vals = np.unique(mx)
        if vals.size >= 2:
            j_ = int(rng.integers(1, vals.size))
            cut = 0.5 * (float(vals[j_ - 1]) + float(vals[j_]))
            if vals[j_ - 1] < cut < vals[j_]:
                tagged = mesh.with_boundaries({"nat": lambda x: x[0] > cut, "ess": lambda x: x[0] < cut})
                Nfac, Dfac = bfm[mx > cut].astype(np.int32), bfm[mx < cut].astype(np.int32)
                mesh = tagged
                basis = skfem.CellBasis(mesh, elem, intorder=order)
                Dsel, Nsel = ["ess"], ["nat"]
                ctx.reached("boundary-parts-by-region-predicates")
    if Nfac.size:
        if d == 1:
            # 1-D: boundary "integral" is a point evaluation with outward normal
            fb = skfem.FacetBasis(mesh, rec.make(), facets=Nfac)
        elif isinstance(Nsel, list):
            fb = skfem.FacetBasis(mesh, rec.make(), facets=Nsel, intorder=min(order, {"tet": 19, "tri": 12}.get(kind, order)))
        elif Nfac.size >= 2 and opt_tags:
            # the natural part named by a list of two overlapping facet tags: their union, each facet once
            N1 = Nfac[: max(1, (2 * Nfac.size) // 3)]
            N2 = Nfac[Nfac.size // 3:]
            fb = skfem.FacetBasis(mesh.with_boundaries({"n1": N1, "n2": N2}), rec.make(), facets=["n1", "n2"],
                                  intorder=min(order, {"tet": 19, "tri": 12}.get(kind, order)))
            ctx.reached("neumann-part-as-overlapping-tags")
        else:
            fb = skfem.FacetBasis(mesh, rec.make(), facets=Nfac, intorder=min(order, {"tet": 19, "tri": 12}.get(kind, order)))
        b = b + skfem.LinearForm(lambda v, w: sum(g_fns[i](w.x) * w.n[i] for i in range(d)) * v).assemble(fb)
    split = "mixed" if (Dfac.size and Nfac.size) else ("dirichlet" if Dfac.size else "neumann")
    ctx.reached({"mixed": "mixed-dirichlet-neumann", "dirichlet": "pure-dirichlet", "neumann": "mixed-dirichlet-neumann"}[split])
    tag = dict(elem=name, degree=deg, mesh=type(mesh).__name__, desc=mc.desc, problem="reaction-diffusion" if reaction else "poisson",
               split=split, nD=int(Dfac.size), nN=int(Nfac.size))
    monitor = "patch-test-reaction-diffusion" if reaction else "patch-test-poisson"
    if Dfac.size:
        Dd = basis.get_dofs(Dsel)
        if union_views:
            import functools
            import operator
            Dd = functools.reduce(operator.or_, [basis.get_dofs(n_) for n_ in Dsel])
            ctx.reached("dirichlet-set-as-union-of-views")
        # the stated pipeline: the DOFs returned by the library are constrained to the *boundary L2 projection* of the
        # data (a stray DOF in the returned set has no support on the Dirichlet facets and makes this projection fail or
        # wrong, whereas prescribing exact nodal values at whatever is returned would mask it)
        can_project = d > 1 and kind != "wedge"
        if can_project:
            fbD = skfem.FacetBasis(mesh, rec.make(), facets=Dsel, intorder=min(order, {"tet": 19, "tri": 12}.get(kind, order)))
            with np.errstate(all="ignore"):
                xD = fbD.project(lambda x: u_fn(x))
            ctx.reached("boundary-projection-used")
        elif rec.nodal:
            xD = np.zeros(basis.N)
            xD[Dd.flatten()] = u_fn(basis.doflocs[:, Dd.flatten()])
        else:
            xD = basis.project(lambda x: u_fn(x))   # the exact coefficient vector restricted by condense to D
        xe = None
        if opt_two and Nfac.size and can_project:
            # another split of the same boundary solved first from the same assembled A and load vector: the whole
            # boundary constrained (by enforce); the mixed split below then reuses A
            Dall = basis.get_dofs()
            with np.errstate(all="ignore"):
                xall = skfem.FacetBasis(mesh, rec.make(), intorder=min(order, {"tet": 19, "tri": 12}.get(kind, order))).project(lambda x: u_fn(x))
            x1 = skfem.solve(*skfem.enforce(A, b0, x=xall, D=Dall))
            e1, n1 = l2_error(skfem.CellBasis(mesh, rec.make(), intorder=order), x1, u_fn)
            ctx.check(monitor, e1 <= 1e-7 * (n1 + 1e-300) + 1e-12 * mag * unit ** (d / 2), mech=f"patch-test:{name.split('(')[0]}:first-of-two-splits",
                      error=e1, norm=n1, **tag)
            ctx.reached("two-splits-on-one-assembled-system")
        if opt_enf:
            # the other way of constraining, on the same assembled system, before it is condensed
            xe = skfem.solve(*skfem.enforce(A, b, x=xD, D=Dd))
            ctx.reached("constrained-by-enforce-then-condense")
        xh = skfem.solve(*skfem.condense(A, b, x=xD, D=Dd))
        ctx.close("dirichlet-values-reproduced", xh[Dd.flatten()], xD[Dd.flatten()], rtol=0, scale=1.0, atol=0.0,
                  mech="expanded-solution-differs-from-prescribed-values", **tag)
        if rec.nodal and can_project:
            # second spelling of the same data: nodal values; both must give the same boundary vector
            xN = np.zeros(basis.N)
            xN[Dd.flatten()] = u_fn(basis.doflocs[:, Dd.flatten()])
            ctx.close("dirichlet-values-reproduced", xD[Dd.flatten()], xN[Dd.flatten()], rtol=1e-8,
                      scale=float(np.abs(xN).max()) + 1e-300, mech=f"boundary-projection-differs-from-nodal-values:{name.split('(')[0]}",
                      **tag)
            ctx.reached("nodal-values-used")
    else:
        xh = skfem.solve(A, b)
    # conditioning guard (DESIGN C06): drop and count, never report
    try:
        from scipy.sparse.linalg import eigsh
        I = basis.complement_dofs(Dd) if Dfac.size else np.arange(basis.N)
        AII = A[I][:, I]
        if AII.shape[0] <= 1500 and AII.shape[0] > 2:
            dense = AII.toarray()
            kappa = np.linalg.cond(dense)
            if kappa * 2.2e-16 > 1e-9:
                # the guard reads the library's own kept block: a singular block is explained only by a component of the
                # mesh without Dirichlet data (pure Neumann); on a connected mesh with a Dirichlet part and a decent
                # element it points at the returned DOF set
                from ..refmodel import topology as T_
                if (not np.isfinite(kappa) or kappa > 1e14) and Dfac.size and not reaction and deg <= 2 and \
                        T_.from_mesh(mesh).components() == 1:
                    nD_ = int(np.asarray(Dd.flatten()).size)
                    ctx.check(monitor, False, mech="kept-block-singular-on-a-connected-mesh-with-dirichlet-data", kappa=float(kappa),
                              constrained=nD_, **tag)
                ctx.drop("ill-conditioned-system")
                return
    except Exception:
        pass
    if Dfac.size and xe is not None:
        # (after the conditioning guard: a singular kept block has no solution to agree on)
        ctx.close("enforce-and-condense-agree", xe, xh, rtol=1e-7, scale=float(np.abs(xh).max()) + 1e-300,
                  mech="enforce-and-condense-solutions-differ", **tag)
    bhi = skfem.CellBasis(mesh, rec.make(), intorder=order)
    err, nrm = l2_error(bhi, xh, u_fn)
    ctx.check(monitor, err <= 1e-8 * (nrm + 1e-300) + 1e-12 * mag * unit ** (d / 2), mech=f"patch-test:{name.split('(')[0]}:{'rd' if reaction else 'poisson'}",
              error=err, norm=nrm, **tag)
    if (split == "mixed" or has_interior_vertex(mesh)):
        ctx.nontrivial(tag["problem"], name, type(mesh).__name__, split, "general" if general else "affine")
    ctx.sample(dict(tag, N=int(basis.N), l2_error=err, l2_norm=nrm, solution={str(e): str(cf) for e, cf in list(u.items())[:5]}),
               per_family=1)


def elasticity_patch(ctx, k, kind):
    import skfem
    from skfem.models.elasticity import linear_elasticity
    rng = ctx.rng()
    names = {"tri": [("ElementTriP1", 1), ("ElementTriP2", 2)], "quad": [("ElementQuad1", 1), ("ElementQuad2", 2)],
             "tet": [("ElementTetP1", 1), ("ElementTetP2", 2)], "hex": [("ElementHex1", 1), ("ElementHex2", 2)]}[kind]
    name, deg = names[k % len(names)]
    mc = affine_mesh(ctx, rng, kind, k)
    cap = ctx.scale(60, 200)
    for attempt in range(6):
        if mc.mesh.t.shape[1] <= cap:
            break
        mc = affine_mesh(ctx, ctx.rng("smaller-mesh", attempt), kind, k)
    mesh = mc.mesh
    if mesh.t.shape[1] > cap:
        # a connected-or-not subset of the cells of an affine mesh is an affine mesh
        S = np.sort(rng.choice(mesh.t.shape[1], size=cap, replace=False))
        p_, t_ = G.clean(np.asarray(mesh.p), np.asarray(mesh.t)[:, S].astype(np.int64))
        mesh = type(mesh)(p_, t_)
        mc = G.MeshCase(mesh, kind, 1, dict(mc.desc, subset=int(cap)), affine_cells=mc.affine_cells, planar_faces=mc.planar_faces)
        ctx.reached("elasticity-on-cell-subset-mesh")
    d = mc.dim
    lam, mu = float(rng.integers(1, 4)), float(rng.integers(1, 4))
    # material given the way the library's model helpers take it (dealt out in turn, not drawn): integers as they are;
    # Young's modulus and Poisson ratio through lame_parameters; in 2-D the same through plane_stress (thin plate).
    # The exact solution, its body force and tractions are built from the closed forms of the same material.
    material = ("plain", "lame-parameters", "plane-stress")[(k // len(names)) % 3]
    if material == "plane-stress" and d != 2:
        material = "lame-parameters"
    lam_asm, mu_asm = lam, mu
    if material != "plain":
        from skfem.models import elasticity as EM
        Eym, nu = float(rng.integers(2, 9)), float(rng.integers(1, 4)) / 8.0
        if material == "lame-parameters":
            lam, mu = Eym * nu / ((1 + nu) * (1 - 2 * nu)), Eym / (2 * (1 + nu))
            lam_asm, mu_asm = EM.lame_parameters(Eym, nu)
        else:
            lam, mu = Eym * nu / (1 - nu * nu), Eym / (2 * (1 + nu))
            lam_asm, mu_asm = EM.lame_parameters(*EM.plane_stress(Eym, nu))
        ctx.close("patch-test-elasticity", np.array([lam_asm, mu_asm], dtype=float), np.array([lam, mu]), rtol=1e-13,
                  scale=max(lam, mu), mech=f"{material}-closed-form", E=Eym, nu=nu)
        ctx.reached("model-forms:" + material)
    U = [rand_poly(rng, d, deg) for _ in range(d)]
    # strain, stress, body force by exact polynomial calculus
    Gd = [[X.pdiff(U[i], j) for j in range(d)] for i in range(d)]
    eps = [[X.pscale(X.padd(Gd[i][j], Gd[j][i]), Fraction(1, 2)) for j in range(d)] for i in range(d)]
    tr = {}
    for i in range(d):
        tr = X.padd(tr, eps[i][i])
    sig = [[X.padd(X.pscale(eps[i][j], Fraction(2 * mu)), X.pscale(tr, Fraction(lam)) if i == j else {}) for j in range(d)] for i in range(d)]
    fvec = []
    for i in range(d):
        acc = {}
        for j in range(d):
            acc = X.padd(acc, X.pdiff(sig[i][j], j))
        fvec.append(X.pscale(acc, -1))
    f_fns = [np_poly(f) for f in fvec]
    s_fns = [[np_poly(sig[i][j]) for j in range(d)] for i in range(d)]
    u_fns = [np_poly(u) for u in U]
    base = EL.by_name(name)
    elem = skfem.ElementVector(base.make())
    order = max(2 * elem.maxdeg, 2 * deg + 2)
    order = min(order, {"tri": 19, "tet": 8}.get(kind, order))
    basis = skfem.CellBasis(mesh, elem, intorder=order)
    A = linear_elasticity(float(lam_asm), float(mu_asm)).assemble(basis)
    b = skfem.LinearForm(lambda v, w: sum(f_fns[i](w.x) * v[i] for i in range(d))).assemble(basis)
    Dfac, Nfac = boundary_split(rng, mesh, allow_empty_dirichlet=False)
    if Nfac.size >= 2 and rng.random() < 0.4:
        N1 = Nfac[: max(1, (2 * Nfac.size) // 3)]
        N2 = Nfac[Nfac.size // 3:]
        fb = skfem.FacetBasis(mesh.with_boundaries({"n1": N1, "n2": N2}), skfem.ElementVector(base.make()),
                              facets=("n1", "n2"), intorder=min(order, 12 if kind == "tri" else order))
        ctx.reached("neumann-part-as-overlapping-tags")
        b = b + skfem.LinearForm(lambda v, w: sum(s_fns[i][j](w.x) * w.n[j] * v[i] for i in range(d) for j in range(d))).assemble(fb)
    elif Nfac.size:
        fb = skfem.FacetBasis(mesh, skfem.ElementVector(base.make()), facets=Nfac, intorder=min(order, 12 if kind == "tri" else order))
        b = b + skfem.LinearForm(lambda v, w: sum(s_fns[i][j](w.x) * w.n[j] * v[i] for i in range(d) for j in range(d))).assemble(fb)
    Dd = basis.get_dofs(Dfac)
    xD = np.zeros(basis.N)
    dl = basis.doflocs[:, Dd.flatten()]
    # component of each vector DOF from the split indices
    comp_of = np.zeros(basis.N, dtype=int)
    for ci, ix in enumerate(basis.split_indices()):
        comp_of[ix] = ci
    for ci in range(d):
        sel = Dd.flatten()[comp_of[Dd.flatten()] == ci]
        xD[sel] = u_fns[ci](basis.doflocs[:, sel])
    xh = skfem.solve(*skfem.condense(A, b, x=xD, D=Dd))
    split = "mixed" if Nfac.size else "dirichlet"
    ctx.reached("mixed-dirichlet-neumann" if Nfac.size else "pure-dirichlet")
    tag = dict(elem=f"Vector({name})", degree=deg, mesh=type(mesh).__name__, desc=mc.desc, problem="elasticity", split=split,
               lam=lam, mu=mu)

    def integrand(w):
        return sum((w["uh"][i] - u_fns[i](w.x)) ** 2 for i in range(d))

    def norm(w):
        return sum(u_fns[i](w.x) ** 2 for i in range(d))
    e2 = skfem.Functional(integrand).assemble(basis, uh=basis.interpolate(xh))
    n2 = skfem.Functional(norm).assemble(basis)
    err, nrm = float(np.sqrt(abs(e2))), float(np.sqrt(abs(n2)))
    I = basis.complement_dofs(Dd)
    if 2 < I.size <= 1500:
        kappa = np.linalg.cond(A[I][:, I].toarray())
        if kappa * 2.2e-16 > 1e-9:
            ctx.drop("ill-conditioned-system")
            return
    ctx.check("patch-test-elasticity", err <= 1e-8 * (nrm + 1e-300) + 1e-12, mech=f"patch-test:elasticity:{name}", error=err,
              norm=nrm, **tag)
    ctx.nontrivial("elasticity", name, type(mesh).__name__, split)
    ctx.sample(dict(tag, N=int(basis.N), l2_error=err), per_family=1)


# ------------------------------------------------------- projection identities
def projection(ctx, k, kind):
    import skfem
    rng = ctx.rng()
    recs = [r for r in EL.all_for_kind(kind) if not r.skeleton and r.mesh_req == "any" and not r.name.startswith("Composite(")]
    rec = recs[k % len(recs)]
    rnd = k // len(recs)
    mc = G.first_order(rng, kind)
    tries = 0
    while mc.mesh.t.shape[1] > ctx.scale(50, 150) and tries < 8:
        tries += 1
        mc = G.first_order(ctx.rng("again", tries), kind)
    if mc.mesh.t.shape[1] > 300:
        raise Skip("mesh-too-large")
    curved = kind in ("tri", "quad", "tet", "hex") and rng.random() < 0.3
    if curved:
        mc = G.second_order(rng, mc, curved=True)
    mesh = mc.mesh
    # the same mesh in other length units (exact power of two): "returns that function on every mesh"
    uexp = (0, -14, 0, 12, -24)[rnd % 5]
    if uexp:
        from dataclasses import replace as _replace
        mesh = _replace(mesh, doflocs=np.asarray(mesh.doflocs) * 2.0 ** uexp)
        mc = G.MeshCase(mesh, mc.kind, mc.order, dict(mc.desc, unit=f"2^{uexp}"), affine_cells=mc.affine_cells, straight=mc.straight,
                        planar_faces=mc.planar_faces)
        ctx.reached("projection-on-mesh-in-other-length-units")
    elem = rec.make()
    basis = skfem.CellBasis(mesh, elem)
    if rec.name.startswith("Vector("):
        ctx.reached("vector-element-projection")
    if rec.family in ("hdiv", "hcurl"):
        ctx.reached("hdiv-hcurl-projection")
    x = rng.standard_normal(basis.N)
    tag = dict(elem=rec.name, mesh=type(mesh).__name__, desc=mc.desc)
    base = rec.name.split("(")[0]
    # mass matrix conditioning guard
    M = skfem.BilinearForm(_inner).assemble(basis)
    if basis.N <= 1200:
        kappa = np.linalg.cond(M.toarray())
        if not np.isfinite(kappa) or kappa * 2.2e-16 > 1e-9:
            ctx.drop("ill-conditioned-mass-matrix")
            return
    y = basis.project(basis.interpolate(x))
    ctx.close("projection-identity-curved" if (curved and not mc.straight) else "projection-identity-whole", y, x, rtol=1e-8,
              scale=float(np.abs(x).max()), mech=f"projection:{base}", **tag)
    cplx = rng.random() < 0.4 or rec.name in ("ElementTriP2", "ElementQuad2", "ElementTetP1")
    if cplx:
        # complex-valued functions of the space (dtype= as documented)
        xc = x + 1j * rng.standard_normal(basis.N)
        import warnings
        with warnings.catch_warnings():
            warnings.simplefilter("ignore")
            yc = basis.project(basis.interpolate(xc), dtype=np.complex128)
        ctx.close("projection-identity-whole" if not (curved and not mc.straight) else "projection-identity-curved", yc, xc,
                  rtol=1e-8, scale=float(np.abs(xc).max()), mech=f"projection-complex:{base}", **tag)
        ctx.reached("complex-valued-projection")
    # a function given as a callable (not built from the basis' own tabulation: wrong basis values, dx or quadrature
    # points cancel in project(interpolate(x))): a polynomial of the space, judged at the nodes / through interpolation
    # (on a curved mesh only the iso-degree elements contain the global polynomials: left to the identity above)
    degp = rec.complete if mc.affine_cells else min(1, rec.complete)
    if not curved and degp is not None and degp >= 0 and not rec.vector_valued and rec.family == "h1" and "(" not in rec.name.replace("Pp(", "").replace("QuadP(", ""):
        pol = np_poly(rand_poly(rng, mc.dim, int(degp)))
        yp = basis.project(lambda x_: pol(x_))
        if rec.nodal:
            locs = np.asarray(basis.doflocs)
            okn = np.isfinite(locs).all(axis=0)
            refp = pol(locs[:, okn])
            ctx.close("projection-identity-callable", yp[okn], refp, rtol=1e-8, scale=float(np.abs(refp).max()) + 1e-300,
                      mech=f"projection-of-callable:{base}", degree=int(degp), **tag)
        else:
            uh = np.array(basis.interpolate(yp))
            refq = pol(np.array(basis.global_coordinates()))
            ctx.close("projection-identity-callable", uh, refq, rtol=1e-8, scale=float(np.abs(refq).max()) + 1e-300,
                      mech=f"projection-of-callable:{base}", degree=int(degp), **tag)
        # a constant given as a number
        yc2 = basis.project(2.5)
        ctx.close("projection-identity-callable", np.array(basis.interpolate(yc2)), 2.5 + 0 * np.array(basis.interpolate(yc2)),
                  rtol=1e-8, scale=2.5, mech=f"projection-of-constant:{base}", **tag)
        ctx.reached("projection-of-callable")
    nt = mesh.t.shape[1]
    S = np.sort(rng.choice(nt, size=max(1, nt // 2), replace=False)).astype(np.int32)
    # (1) basis restricted at construction: reproduces x on the DOFs of S for any x
    bS = skfem.CellBasis(mesh, rec.make(), elements=S)
    dS = bS.get_dofs(elements=S).flatten()
    yS = bS.project(bS.interpolate(x))
    ctx.close("projection-identity-restricted-basis", yS[dS], x[dS], rtol=1e-8, scale=float(np.abs(x).max()),
              mech=f"projection-restricted:{base}", **tag)
    out = np.setdiff1d(np.arange(basis.N), dS)
    ctx.close("projection-identity-restricted-basis", yS[out], 0 * yS[out], rtol=1e-10, scale=float(np.abs(x).max()),
              mech=f"projection-restricted-outside-nonzero:{base}", **tag)
    # (2) elements= keyword on the unrestricted basis: projects onto span{phi_i: i in DOFs(S)} over the whole mesh,
    #     so it reproduces x only when x vanishes outside those DOFs
    xs = np.zeros(basis.N)
    xs[dS] = x[dS]
    yk = basis.project(basis.interpolate(xs), elements=S)
    ctx.close("projection-identity-elements-keyword", yk, xs, rtol=1e-8, scale=float(np.abs(x).max()),
              mech=f"projection-elements-keyword:{base}", **tag)
    # (3) boundary: FacetBasis.project reproduces the boundary DOFs of a function supported on them
    if rec.facet_basis and kind not in ("wedge", "line") and rec.conforming in ("value", "normal", "tangential"):
        fb = skfem.FacetBasis(mesh, rec.make())
        dB = fb.get_dofs(facets=fb.find).flatten()
        xb = np.zeros(basis.N)
        xb[dB] = x[dB]
        Mb = skfem.BilinearForm(_inner).assemble(fb)
        MbII = Mb[dB][:, dB].toarray()
        if dB.size <= 1200 and np.linalg.cond(MbII) * 2.2e-16 < 1e-9:
            yb = fb.project(fb.interpolate(xb))
            ctx.close("projection-identity-boundary", yb, xb, rtol=1e-8, scale=float(np.abs(x).max()),
                      mech=f"projection-boundary:{base}", **tag)
            if cplx:
                xbc = np.zeros(basis.N, dtype=complex)
                xbc[dB] = xc[dB]
                import warnings
                with warnings.catch_warnings():
                    warnings.simplefilter("ignore")
                    ybc = fb.project(fb.interpolate(xbc), dtype=np.complex128)
                ctx.close("projection-identity-boundary", ybc, xbc, rtol=1e-8, scale=float(np.abs(xc).max()),
                          mech=f"projection-boundary-complex:{base}", **tag)
                ctx.reached("complex-valued-boundary-projection")
            # a part of the boundary through the facets= keyword
            bf = fb.find
            part = bf[: max(1, bf.size // 2)]
            dP = fb.get_dofs(facets=part).flatten()
            xp = np.zeros(basis.N)
            xp[dP] = x[dP]
            fbp = skfem.FacetBasis(mesh, rec.make(), facets=part)
            MP = skfem.BilinearForm(_inner).assemble(fbp)[dP][:, dP].toarray()
            if np.linalg.cond(MP) * 2.2e-16 < 1e-9:
                yp = fbp.project(fbp.interpolate(xp))
                ctx.close("projection-identity-boundary", yp, xp, rtol=1e-8, scale=float(np.abs(x).max()),
                          mech=f"projection-boundary-part:{base}", **tag)
        else:
            ctx.drop("singular-boundary-mass-matrix")
    ctx.nontrivial("projection", rec.name, type(mesh).__name__, "curved" if curved else "straight")


def _inner(*args):
    n = (len(args) - 1) // 2
    out = 0
    for a, b in zip(args[:n], args[n:-1]):
        pr = np.array(a) * np.array(b)
        while pr.ndim > 2:
            pr = pr.sum(axis=0)
        out = out + pr
    return out


def fam(fn, kind):
    return lambda ctx, k: fn(ctx, k, kind)


FAMILIES = []
for kd, q, th in (("line", 20, 400), ("tri", 60, 1800), ("quad", 48, 1200), ("tet", 24, 480), ("hex", 18, 360), ("wedge", 4, 60)):
    FAMILIES.append(Family("scalar-" + kd, fam(scalar_patch, kd), q, th, budget={"quick": 30, "thorough": 600}))
for kd, q, th in (("tri", 12, 320), ("quad", 8, 240), ("tet", 6, 120), ("hex", 4, 60)):
    FAMILIES.append(Family("elasticity-" + kd, fam(elasticity_patch, kd), q, th, budget={"quick": 25, "thorough": 600}))
for kd in ("line", "tri", "quad", "tet", "hex", "wedge"):
    n = (lambda c, kd=kd: len([r for r in EL.all_for_kind(kd) if not r.skeleton and r.mesh_req == "any"
                                 and not r.name.startswith("Composite(")]) * (3 if c.tier == "quick" else 30))
    FAMILIES.append(Family("projection-" + kd, fam(projection, kd), n, n, budget={"quick": 25, "thorough": 600}))
