"""C03 Discrete functions are globally continuous in the sense of the element.

Two independent observation paths, both required to agree with the registry claim:
 (i)  InteriorFacetBasis(side=0/1).interpolate(x) at the shared quadrature points with fb.normals
      (the path named in the property);
 (ii) cell-side evaluation through elem.gbasis at reference points constructed from the *shared
      vertices* of each interior facet (same convex/bilinear weights on the two cells' local copies
      of the facet), normals from the harness' own Jacobians — independent of FacetBasis, mapping.G,
      invF and mapping.normals.
"""
from __future__ import annotations

import glob
import os

import numpy as np

from ..engine import Family, Skip, REPO
from ..gen import elements as EL
from ..gen import meshes as G
from ..refmodel import geometry as GEO
from ..refmodel import lagrange as LAG

PID = "C03"
RULE = ("random meshes with vertex renumbering, cell permutation and every admissible local vertex order (any for "
        "simplices incl. MeshTri2/MeshTet2 built with the class-default constructor, cyclic shifts for quadrilaterals, the "
        "24 rotations for hexahedra), curved second-order meshes, docs meshes x every registry record with a continuity "
        "claim (+ vector and composite wrappers) x random coefficient vectors; distinct key = (record, mesh class, "
        "observation path, local-order class); non-trivial iff some interior facet is seen from its two cells in "
        "different local slots or in opposite local direction")
TRACK = ["skfem.element.element_hdiv:ElementHdiv.orient", "skfem.element.element_hcurl:ElementHcurl.orient",
         "skfem.assembly.dofs:Dofs.__init__", "skfem.assembly.basis.interior_facet_basis:InteriorFacetBasis.__init__",
         "skfem.assembly.basis.abstract_basis:AbstractBasis.interpolate"]
REQUIRED_MONITORS = ["value-continuous", "normal-component-continuous", "tangential-component-continuous",
                     "normal-normal-continuous", "facet-midpoint-continuous", "morley-functionals-continuous",
                     "gradient-continuous", "value-continuous/facetbasis", "normal-component-continuous/facetbasis",
                     "tangential-component-continuous/facetbasis"]
REQUIRED_REACH = ["facet-opposite-direction", "facet-different-slot", "hdiv-orient-both-signs",
                  "hcurl-orient-both-signs", "curved-mesh", "docs-mesh", "quad-shifted", "hex-rotated",
                  "derived-mesh", "derived-mesh:adaptive", "first-order-simplices-in-given-local-order",
                  "derived-directed:adaptive", "derived-directed:used-elsewhere", "derived-directed:uniform",
                  "derived-directed:used-oriented", "derived-mesh:parent-tables-in-use", "one-element-object-on-both-sides",
                  "prism-faces-of-both-kinds"]


def mesh_geometry(mesh, kind, order):
    if order == 2:
        iso = LAG.IsoGeometry(mesh, kind)
        return iso.DF
    p, t = np.asarray(mesh.p), np.asarray(mesh.t)
    return lambda X, cells: GEO.jacobian(kind, p, t, X, cells)


def facet_weights(rng, nvf, npts):
    """Convex/bilinear weights (nvf, npts) of points in the facet incl. its centroid (first column)."""
    if nvf == 1:
        return np.ones((1, 1))
    if nvf == 2:
        s = np.concatenate([[0.5], rng.uniform(0.03, 0.97, npts - 1)])
        return np.vstack([1 - s, s])
    if nvf == 3:
        lam = rng.dirichlet(np.ones(3), size=npts - 1).T * 0.94 + 0.02
        return np.hstack([np.full((3, 1), 1 / 3), lam])
    a = np.concatenate([[0.5], rng.uniform(0.03, 0.97, npts - 1)])
    b = np.concatenate([[0.5], rng.uniform(0.03, 0.97, npts - 1)])
    return np.vstack([(1 - a) * (1 - b), a * (1 - b), a * b, (1 - a) * b])


def interior_facets(mesh):
    f2t = np.asarray(mesh.f2t)
    return np.nonzero(f2t[1] >= 0)[0]


def local_positions(mesh, facets_idx, side):
    """For every listed facet: the local vertex indices, in the cell on `side`, of the facet's global vertices
    (in the order stored in mesh.facets; repeated padding entries removed)."""
    f2t = np.asarray(mesh.f2t)
    t = np.asarray(mesh.t)
    out = []
    for f in facets_idx:
        c = f2t[side, f]
        gv = list(dict.fromkeys(int(v) for v in mesh.facets[:, f]))
        col = [int(v) for v in t[:, c]]
        out.append([col.index(g) for g in gv])
    return np.array(out)  # (nfac, nvf)


def eval_side(mesh, kind, elem_factory, xvec, facets_idx, side, W, DFfun, per_facet_fallback=False):
    """u_h and derived fields on `side` of the facets at the points given by weights W.
    Returns list over components of dict(field name -> array(..., nfac, npts)), plus DF (dim, dref, nfac, npts)."""
    f2t = np.asarray(mesh.f2t)
    cells = f2t[side, facets_idx]
    Pref = np.asarray(mesh.elem.refdom.p, dtype=float)       # (dref, nvert)
    pos = local_positions(mesh, facets_idx, side)            # (nfac, nvf)
    Xc = np.einsum("dfk,kq->dfq", Pref[:, pos], W)           # (dref, nfac, npts)
    elem = elem_factory()
    mapping = mesh.mapping()
    ed = np.asarray(mesh.dofs.element_dofs) if False else None
    import skfem
    dofs = skfem.assembly.Dofs(mesh, elem)
    ed = np.asarray(dofs.element_dofs)[:, cells]
    Nb = ed.shape[0]
    comps = None
    for i in range(Nb):
        if per_facet_fallback:
            parts = [elem.gbasis(mapping, Xc[:, j, :], i, tind=np.array([cells[j]])) for j in range(len(cells))]
            fields = []
            for comp in range(len(parts[0])):
                d = {}
                for name in ("value", "grad", "hess"):
                    arrs = [np.array(pp[comp]) if name == "value" else getattr(pp[comp], name) for pp in parts]
                    d[name] = None if arrs[0] is None else np.concatenate(arrs, axis=-2)
                fields.append(d)
        else:
            fs = elem.gbasis(mapping, Xc, i, tind=cells)
            fields = [{"value": np.array(f), "grad": f.grad, "hess": f.hess} for f in fs]
        if comps is None:
            comps = [{k: (None if v is None else np.zeros(v.shape)) for k, v in d.items()} for d in fields]
            mags = [np.zeros(d["value"].shape[-2:]) for d in fields]
        coef = xvec[ed[i]]                                    # (nfac,)
        for cidx, d in enumerate(fields):
            for name, arr in d.items():
                if arr is not None:
                    comps[cidx][name] += coef[:, None] * arr
            v = np.abs(d["value"])
            while v.ndim > 2:
                v = v.max(axis=0)
            mags[cidx] += np.abs(coef)[:, None] * v
    DF = DFfun(Xc, cells)
    return comps, mags, DF, Xc


def outward_normal(mesh, kind, facets_idx, DF, side=0):
    """Unit normal of the facets, outward for the cell on side 0: DF^{-T} n_ref (own geometry)."""
    rd = mesh.elem.refdom
    f2t, t2f = np.asarray(mesh.f2t), np.asarray(mesh.t2f)
    P = np.asarray(rd.p, dtype=float)
    d = P.shape[0]
    nref = np.zeros((d, len(facets_idx)))
    for j, f in enumerate(facets_idx):
        c = f2t[side, f]
        slot = int(np.nonzero(t2f[:, c] == f)[0][0])
        verts = list(dict.fromkeys(rd.facets[slot]))
        V = P[:, verts]
        if d == 1:
            n = np.array([1.0 if V[0, 0] > 0.5 else -1.0])
        elif d == 2:
            tau = V[:, 1] - V[:, 0]
            n = np.array([tau[1], -tau[0]])
        else:
            n = np.cross(V[:, 1] - V[:, 0], V[:, 2] - V[:, 0])
        if d > 1 and n @ (V.mean(1) - P.mean(1)) < 0:
            n = -n
        nref[:, j] = n
    invDF = GEO.inv(DF)                                       # (dref, dim, nfac, npts)
    n = np.einsum("kifq,kf->ifq", invDF, nref)
    return n / np.linalg.norm(n, axis=0, keepdims=True)


def classify_local_orders(mesh, facets_idx):
    """Counts of interior facets seen (a) in different local slots, (b) in opposite local direction."""
    p0, p1 = local_positions(mesh, facets_idx, 0), local_positions(mesh, facets_idx, 1)
    t2f, f2t = np.asarray(mesh.t2f), np.asarray(mesh.f2t)
    diffslot = 0
    for j, f in enumerate(facets_idx):
        s0 = int(np.nonzero(t2f[:, f2t[0, f]] == f)[0][0])
        s1 = int(np.nonzero(t2f[:, f2t[1, f]] == f)[0][0])
        diffslot += s0 != s1
    # direction: is the order of local indices ascending on one side and descending on the other (2 first vertices)
    opp = int(np.sum((p0[:, 0] < p0[:, -1]) != (p1[:, 0] < p1[:, -1]))) if p0.shape[1] >= 2 else 0
    return diffslot, opp


def jumps(rec, comp_rec, kind, c0, c1, n, mags, tol_scale):
    """Yields (monitor, jump array, scale array) for the claims of one component record."""
    v0, v1 = c0["value"], c1["value"]
    sc = mags + 1e-300
    fam = comp_rec.family
    if comp_rec.conforming == "value":
        dv = v0 - v1
        while dv.ndim > 2:
            dv = np.abs(dv).max(axis=0)
        yield "value-continuous", np.abs(dv), sc
    if comp_rec.conforming == "normal":
        yield "normal-component-continuous", np.abs(np.einsum("ifq,ifq->fq", v0 - v1, n)), sc
    if comp_rec.conforming == "tangential":
        dv = v0 - v1
        if dv.shape[0] == 2:
            tj = dv[0] * n[1] - dv[1] * n[0]
            yield "tangential-component-continuous", np.abs(tj), sc
        else:
            tj = np.cross(np.moveaxis(n, 0, -1), np.moveaxis(dv, 0, -1))
            yield "tangential-component-continuous", np.abs(tj).max(axis=-1), sc
    if comp_rec.conforming == "nn":
        yield "normal-normal-continuous", np.abs(np.einsum("ifq,ijfq,jfq->fq", n, v0 - v1, n)), sc
    if comp_rec.nonconforming == "facet-midpoint":
        dv = np.abs(v0 - v1)
        while dv.ndim > 2:
            dv = dv.max(axis=0)
        yield "facet-midpoint-continuous", dv[:, :1], sc[:, :1]
    if comp_rec.c1 and c0["grad"] is not None:
        dg = np.abs(c0["grad"] - c1["grad"])
        while dg.ndim > 2:
            dg = dg.max(axis=0)
        yield "gradient-continuous", dg, sc * tol_scale
    if comp_rec.nonconforming == "morley" and c0["grad"] is not None:
        dn = np.einsum("ifq,ifq->fq", c0["grad"] - c1["grad"], n)
        yield "morley-functionals-continuous", np.abs(dn)[:, :1], sc[:, :1] * tol_scale


def component_records(rec):
    """Registry records of the components (for composites) or the record itself."""
    if rec.name.startswith("Composite("):
        inner = rec.name[len("Composite("):-1]
        names, depth, cur = [], 0, ""
        for ch in inner:
            if ch == "(":
                depth += 1
            if ch == ")":
                depth -= 1
            if ch == "," and depth == 0:
                names.append(cur)
                cur = ""
            else:
                cur += ch
        names.append(cur)
        out = []
        for nme in names:
            if nme.startswith("Vector("):
                out.append(EL.vector(EL.by_name(nme[len("Vector("):-1])))
            else:
                out.append(EL.by_name(nme))
        return out
    return [rec]


QUAD_EDGE_DIRECTION = [(0, 1), (1, 2), (3, 2), (0, 3)]   # direction of the reference edge functions of QuadP / QuadN1


def predicted_failing_facets(kind_of_defect, mesh, itf):
    """Model of each *recorded* defect: exactly which interior facets it makes discontinuous (for a generic
    coefficient vector).  A witness is classified under the recorded mechanism only if the observed failing
    facets are exactly these; anything else stays unclassified (-> VIOLATION)."""
    t = np.asarray(mesh.t)
    t2f, f2t = np.asarray(mesh.t2f), np.asarray(mesh.f2t)
    out = set()
    for f in itf:
        info = []
        for side in (0, 1):
            c = f2t[side, f]
            slot = int(np.nonzero(t2f[:, c] == f)[0][0])
            info.append((c, slot))
        if kind_of_defect == "quadn1":
            # the reference edge functions run 1->0, 1->2, 3->2, 0->3 while the sign rule looks at the facet table
            # (0,1), (1,2), (2,3), (0,3): after the rule the functions of local edges 1 and 3 point low->high global
            # index, those of local edges 0 and 2 high->low; discontinuous iff the two sides see slots of different parity
            if (info[0][1] % 2) != (info[1][1] % 2):
                out.add(int(f))
        elif kind_of_defect == "quadp":
            # odd edge modes change sign when the edge is traversed the other way round
            dirs = []
            for c, slot in info:
                a, b = QUAD_EDGE_DIRECTION[slot]
                dirs.append((int(t[a, c]), int(t[b, c])))
            if dirs[0] != dirs[1]:
                out.add(int(f))
        elif kind_of_defect == "unsorted-simplex":
            # several DOFs per facet are laid out along the local direction (a -> b) of mesh.elem.refdom.facets
            fl = mesh.elem.refdom.facets
            dirs = []
            for c, slot in info:
                loc = list(dict.fromkeys(fl[slot]))
                dirs.append(tuple(int(t[i, c]) for i in loc))
            if dirs[0] != dirs[1]:
                out.add(int(f))
    return out


def mech_for(rec_name, mesh, monitor, diffslot, opp, unsorted_tri2, failing=None, itf=None):
    base = rec_name.split("(")[0]
    kind = None
    if rec_name.startswith("ElementQuadP(") and int(rec_name[len("ElementQuadP("):-1]) >= 3:
        kind, key = "quadp", "quadp-odd-edge-modes-unsigned-on-oppositely-traversed-edges"
    elif base == "ElementQuadN1":
        kind, key = "quadn1", "quadn1-sign-rule-disagrees-with-reference-tangents"
    elif unsorted_tri2:
        kind, key = "unsorted-simplex", "second-order-simplex-mesh-unsorted-cells-multi-dof-facets"
    if kind is not None and failing is not None and itf is not None:
        if set(int(x) for x in failing) == predicted_failing_facets(kind, mesh, itf):
            return key
    return f"{monitor}:{base}"


def check_mesh_elem(ctx, mc, rec, tag_extra=None, only_nvf=None):
    import skfem
    rng = ctx.rng(rec.name, "coef")
    mesh, kind = mc.mesh, mc.kind
    itf = interior_facets(mesh)
    if only_nvf is not None:
        # prisms mix triangular and quadrilateral faces: one group of equal vertex count per call
        itf = np.array([f for f in itf if len(dict.fromkeys(int(v) for v in mesh.facets[:, f])) == only_nvf], dtype=itf.dtype)
    if itf.size == 0:
        raise Skip("no-interior-facets")
    if itf.size > 60:
        itf = np.sort(rng.choice(itf, size=60, replace=False))
    diffslot, opp = classify_local_orders(mesh, itf)
    if diffslot:
        ctx.reached("facet-different-slot")
    if opp:
        ctx.reached("facet-opposite-direction")
    DFfun = mesh_geometry(mesh, kind, mc.order)
    comp_recs = component_records(rec)
    if not any(r.conforming or r.nonconforming or r.c1 for r in comp_recs):
        return
    elem0 = rec.make()
    N = skfem.assembly.Dofs(mesh, elem0).N
    xvec = rng.standard_normal(N)
    nvf = len(dict.fromkeys(int(v) for v in mesh.facets[:, itf[0]]))
    W = facet_weights(rng, nvf, 4)
    is_global = any(r.family == "global" for r in comp_recs)
    rtol = 1e-7 if is_global else 1e-9
    fallback = rec.name == "ElementTriN3"
    multi = max(getattr(elem0, "facet_dofs", 0), getattr(elem0, "edge_dofs", 0)) > 1 or rec.name.startswith("Composite(")
    unsorted_tri2 = (mc.order == 2 and kind in ("tri", "tet") and bool(mc.desc.get("unsorted_cells")))
    tag = dict(elem=rec.name, mesh=type(mesh).__name__, desc=mc.desc, different_slot=int(diffslot), opposite=int(opp))
    if tag_extra:
        tag.update(tag_extra)

    # ---- path (ii): cell-side evaluation
    c0, m0, DF0, _ = eval_side(mesh, kind, rec.make, xvec, itf, 0, W, DFfun, fallback)
    c1, m1, DF1, _ = eval_side(mesh, kind, rec.make, xvec, itf, 1, W, DFfun, fallback)
    n = outward_normal(mesh, kind, itf, DF0)
    hinv = 1.0 / max(float(np.min(mesh.param() if hasattr(mesh, "param") else 1.0)), 1e-12) if False else 1.0
    # gradient jumps are compared relative to |u|/h: take h from the facet's cell Jacobian
    hloc = np.abs(GEO.det(DF0)) ** (1.0 / DF0.shape[0])
    for ci, cr in enumerate(comp_recs):
        for monitor, jump, scale in jumps(rec, cr, kind, c0[ci], c1[ci], n, np.maximum(m0[ci], m1[ci]), 1.0):
            if monitor in ("gradient-continuous", "morley-functionals-continuous"):
                scale = scale / (hloc[:, :scale.shape[1]] if scale.shape == hloc.shape else hloc[:, :1]) * 10
            scale = np.broadcast_to(scale, jump.shape)
            bad = jump > rtol * scale
            ctx.monitors[monitor]["evaluations"] += int(jump.size)
            if bad.any():
                j = np.unravel_index(np.argmax(jump / scale), jump.shape)
                ctx.monitors[monitor]["evaluations"] -= 1
                failing = itf[np.nonzero(bad.any(axis=1))[0]]
                ctx.check(monitor, False, mech=mech_for(rec.name, mesh, monitor, diffslot, opp, unsorted_tri2, failing, itf),
                          path="cell-side", component=ci, jump=float(jump[j]), scale=float(scale[j]),
                          facet=int(itf[j[0]]), failing=int(bad.sum()), of=int(bad.size), **tag)
    # Morley / Hermite-type: vertex value continuity (1-D Hermite: value and derivative at the shared vertex)
    if diffslot or opp:
        ctx.nontrivial(rec.name, type(mesh).__name__, "cell-side", "shifted" if (diffslot or opp) else "aligned")

    # ---- path (i): InteriorFacetBasis on both sides
    if rec.facet_basis and kind != "wedge" and kind != "line":
        try:
            # ONE element object for both sides, as a caller writes it (the two bases evaluate it at point sets of equal
            # shape that differ only partly: tables an element keeps between calls must follow)
            e_both = rec.make()
            fb0 = skfem.InteriorFacetBasis(mesh, e_both, facets=itf, side=0)
            fb1 = skfem.InteriorFacetBasis(mesh, e_both, facets=itf, side=1,
                                           quadrature=(fb0.X, fb0.W))
            ctx.reached("one-element-object-on-both-sides")
        except NotImplementedError:
            ctx.drop("facet-basis-not-implemented")
            return
        u0, u1 = fb0.interpolate(xvec), fb1.interpolate(xvec)
        u0 = u0 if isinstance(u0, tuple) else (u0,)
        u1 = u1 if isinstance(u1, tuple) else (u1,)
        nn = np.array(fb0.normals)
        # the two one-sided bases speak of the same facets: they deliver the same normal field at the shared points (the
        # normal trace u.n a caller forms on each side with that basis' own normal is what the statement is about)
        n1 = np.array(fb1.normals)
        ctx.close("normal-component-continuous/facetbasis" if rec.family == "hdiv" else "value-continuous/facetbasis", n1, nn, rtol=1e-9,
                  scale=1.0, mech="one-sided-facet-bases-disagree-on-the-normal", elem=rec.name, mesh=type(mesh).__name__, desc=mc.desc)
        # magnitude of contributions for the scale
        ed0 = np.asarray(fb0.element_dofs)
        for ci, cr in enumerate(comp_recs):
            mag = np.zeros(np.array(u0[ci]).shape[-2:])
            for i in range(fb0.Nbfun):
                v = np.abs(np.array(fb0.basis[i][ci]))
                while v.ndim > 2:
                    v = v.max(axis=0)
                mag += np.abs(xvec[ed0[i]])[:, None] * v
            d0 = {"value": np.array(u0[ci]), "grad": u0[ci].grad, "hess": u0[ci].hess}
            d1 = {"value": np.array(u1[ci]), "grad": u1[ci].grad, "hess": u1[ci].hess}
            hloc = np.abs(np.asarray(fb0.dx)) * 0 + 1.0
            for monitor, jump, scale in jumps(rec, cr, kind, d0, d1, nn, mag, 1.0):
                if monitor in ("facet-midpoint-continuous", "morley-functionals-continuous"):
                    continue  # quadrature points are not the facet midpoints: judged on the cell-side path
                if monitor == "gradient-continuous":
                    h = np.asarray(mesh.params())[np.asarray(mesh.f2t)[0, itf]] if hasattr(mesh, "params") else 1.0
                    scale = scale / np.asarray(h)[:, None] * 10
                mon = monitor + "/facetbasis"
                scale = np.broadcast_to(scale, jump.shape)
                bad = jump > rtol * scale
                ctx.monitors[mon]["evaluations"] += int(jump.size)
                if bad.any():
                    j = np.unravel_index(np.argmax(jump / scale), jump.shape)
                    ctx.monitors[mon]["evaluations"] -= 1
                    failing = itf[np.nonzero(bad.any(axis=1))[0]]
                    ctx.check(mon, False, mech=mech_for(rec.name, mesh, monitor, diffslot, opp, unsorted_tri2, failing, itf),
                              path="facetbasis", component=ci, jump=float(jump[j]), scale=float(scale[j]),
                              facet=int(itf[j[0]]), failing=int(bad.sum()), of=int(bad.size), **tag)
        if diffslot or opp:
            ctx.nontrivial(rec.name, type(mesh).__name__, "facetbasis", "shifted")
    # orientation reach
    if rec.family == "hdiv" and hasattr(elem0, "orient"):
        o = np.asarray(elem0.orient(mesh.mapping(), 0))
        if (o > 0).any() and (o < 0).any():
            ctx.reached("hdiv-orient-both-signs")
    if rec.family == "hcurl" and hasattr(elem0, "orient"):
        o = np.asarray(elem0.orient(mesh.mapping(), 0))
        if (o > 0).any() and (o < 0).any():
            ctx.reached("hcurl-orient-both-signs")
    ctx.sample(dict(tag, interior_facets=int(itf.size), N=int(N)), per_family=1)


def vertex_continuity(ctx, mc, rec):
    """Morley: vertex values single-valued; 1-D Hermite: value and derivative at shared vertices;
    TriHermite/15-parameter/Argyris: vertex values and gradients single-valued (their vertex DOFs)."""
    import skfem
    rng = ctx.rng(rec.name, "vertex")
    mesh, kind = mc.mesh, mc.kind
    t = np.asarray(mesh.t)
    nvl = G.NVERT[kind]
    elem = rec.make()
    dofs = skfem.assembly.Dofs(mesh, elem)
    xvec = rng.standard_normal(dofs.N)
    Pref = GEO.ref_vertices(kind)
    mapping = mesh.mapping()
    nt = t.shape[1]
    vals = np.zeros((nvl, nt))
    grads = None
    ed = np.asarray(dofs.element_dofs)
    mag = np.zeros((nvl, nt))
    for i in range(ed.shape[0]):
        f = elem.gbasis(mapping, Pref, i)[0]
        vals += (xvec[ed[i]][:, None] * np.array(f)).T
        mag += (np.abs(xvec[ed[i]])[:, None] * np.abs(np.array(f))).T
        if f.grad is not None:
            g = np.moveaxis(f.grad, 0, -1)  # (nt, nvl, dim)
            grads = (0 if grads is None else grads) + xvec[ed[i]][:, None, None] * g
    by_vertex = {}
    for c in range(nt):
        for l in range(nvl):
            by_vertex.setdefault(int(t[l, c]), []).append((c, l))
    worst = 0.0
    worstg = 0.0
    h = float(np.min(np.abs(np.diff(np.sort(mesh.p[0])))[np.abs(np.diff(np.sort(mesh.p[0]))) > 0])) if kind == "line" else 1.0
    for v, lst in by_vertex.items():
        if len(lst) < 2:
            continue
        vv = np.array([vals[l, c] for c, l in lst])
        sc = max(mag[l, c] for c, l in lst) + 1e-300
        worst = max(worst, float(np.ptp(vv)) / sc)
        if grads is not None and rec.name in ("ElementLineHermite", "ElementTriHermite", "ElementTriArgyris",
                                              "ElementTri15ParamPlate", "ElementQuadBFS", "ElementHexC1"):
            gg = np.array([grads[c, l] for c, l in lst])
            worstg = max(worstg, float(np.ptp(gg, axis=0).max()) / (sc / h * 10))
    ctx.check("morley-functionals-continuous" if rec.name == "ElementTriMorley" else "value-continuous",
              worst <= 1e-7, mech=f"vertex-value:{rec.name}", elem=rec.name, worst=worst, desc=mc.desc)
    if grads is not None and worstg > 0:
        ctx.check("gradient-continuous", worstg <= 1e-6, mech=f"vertex-gradient:{rec.name}", elem=rec.name,
                  worst=worstg, desc=mc.desc)


def derived(ctx, rng, mc, op=None):
    """"For every mesh": also the meshes the library itself returns from an operation on a default-constructed
    mesh (the caller never switched anything off): adaptive and uniform refinement, restriction to a cell subset,
    rigid motion, mirroring, tagging.  Geometry class (affine / planar faces) is inherited."""
    m, kind = mc.mesh, mc.kind
    nt = m.t.shape[1]
    ops = ["restrict", "translated", "scaled", "tagged"]
    if kind in ("tri", "quad") or nt <= 12:
        ops.append("mirrored")
    if kind in ("tri", "tet") and nt <= 60:
        ops += ["adaptive", "adaptive", "adaptive-twice", "used-elsewhere", "oriented", "used-oriented"]
    if kind == "tri":
        ops += ["unsorted"]
    if kind == "quad" and nt <= 40:
        ops += ["to_meshtri", "to_meshtri-x"]
    if kind == "hex" and nt <= 8:
        ops += ["to_meshtet"]
    if nt <= {"tri": 20, "quad": 16, "tet": 6, "hex": 3}[kind]:
        ops.append("uniform")
    if op is None:
        op = ops[int(rng.integers(len(ops)))]
    elif op not in ops and not (op.startswith("used-") and op[5:] in ops):
        raise Skip("operation-not-offered-for-this-mesh")
    d = m.p.shape[0]
    op_full = op
    try:
        if op.startswith("used-") and op != "used-elsewhere":
            # the parent was in use before the operation: its facet/edge tables exist (and must not be handed on stale)
            _ = (m.facets, m.t2f, m.f2t, m.boundary_facets())
            if d == 3:
                _ = (m.edges, m.t2e)
            op = op[5:]
        if op == "restrict":
            keep = np.sort(rng.choice(nt, size=max(2, int(nt * 0.7)), replace=False)) if nt > 2 else np.arange(nt)
            m2 = m.restrict(keep)
        elif op == "translated":
            m2 = m.translated(tuple(float(v) for v in rng.integers(-3, 4, size=d) / 4.0))
        elif op == "scaled":
            m2 = m.scaled(tuple(float(v) for v in rng.choice([0.5, 2.0, 1.5], size=d)))
        elif op == "tagged":
            m2 = m.with_subdomains({"a": np.arange(nt)[: max(1, nt // 2)]}).with_boundaries({"b": m.boundary_facets()[:2]})
        elif op == "mirrored":
            n = np.zeros(d)
            n[int(rng.integers(d))] = 1.0
            m2 = m.mirrored(tuple(n), tuple(np.asarray(m.p).min(1) - 0.25))
        elif op == "adaptive":
            m2 = m.refined(np.sort(rng.choice(nt, size=int(rng.integers(1, max(2, nt // 3))), replace=False)))
        elif op == "oriented":
            m2 = m.oriented()
        elif op == "unsorted":
            t_ = np.array(m.t)
            for c_ in range(t_.shape[1]):
                t_[:, c_] = t_[rng.permutation(3), c_]
            m2 = type(m)(np.array(m.p), t_, sort_t=False)
        elif op in ("to_meshtri", "to_meshtri-x"):
            m2 = m.to_meshtri(style="x") if op.endswith("x") else m.to_meshtri()
        elif op == "to_meshtet":
            m2 = m.to_meshtet()
        elif op == "used-elsewhere":
            # the mesh itself, after other meshes were derived from it (its tables in use before and after)
            _ = (m.facets, m.t2f, m.f2t)
            m.oriented()
            m.refined(np.array([0]))
            m.translated(tuple([0.5] * d))
            m2 = m
        elif op == "adaptive-twice":
            m2 = m.refined(rng.choice(nt, size=1))
            m2 = m2.refined(np.sort(rng.choice(m2.t.shape[1], size=2, replace=False)))
        else:
            m2 = m.refined()
    except Exception as e:  # the operation itself is C12/C13/C18's subject
        ctx.drop(f"derived-op-raised:{op}:{type(e).__name__}")
        return mc
    if m2.t.shape[1] > ctx.scale(160, 400) or not len(interior_facets(m2)):
        ctx.drop("derived-mesh-too-large-or-no-interior-facets")
        return mc
    ctx.reached("derived-mesh:" + op.split("-")[0])
    if op_full != op:
        ctx.reached("derived-mesh:parent-tables-in-use")
    ctx.reached("derived-mesh")
    kind2 = {"to_meshtri": "tri", "to_meshtri-x": "tri", "to_meshtet": "tet"}.get(op, kind)
    unsorted = kind2 in ("tri", "tet") and not (np.diff(np.asarray(m2.t), axis=0) > 0).all()
    # cells in a local order the CALLER asked for (oriented(), sort_t=False) - as opposed to an unsorted mesh that a library
    # operation returns from a default-constructed one, which every element must be able to use
    by_caller = unsorted and (op in ("oriented", "unsorted") or bool(mc.desc.get("unsorted_by_caller")))
    if op in ("oriented", "unsorted") and unsorted:
        ctx.reached("first-order-simplices-in-given-local-order")
    return G.MeshCase(m2, kind2, 1, dict(mc.desc, derived=op_full, ncells=int(m2.t.shape[1]), unsorted_first_order=bool(unsorted and kind2 == "tri"),
                           unsorted_by_caller=bool(by_caller and kind2 == "tri")),
                      affine_cells=(True if kind2 != kind else mc.affine_cells), straight=True, planar_faces=mc.planar_faces)


def pick_mesh(ctx, rng, rec, k):
    from .c09 import wellshaped
    kind = rec.kind
    comp = component_records(rec)
    needs_affine = any(r.mesh_req == "affine" for r in comp) or any(r.family == "global" for r in comp)
    axis = any(r.mesh_req == "axis-parallel" for r in comp)
    if needs_affine or axis:
        return wellshaped(rng, kind, axis)
    mc = G.first_order(rng, kind)
    tries = 0
    while mc.mesh.t.shape[1] > ctx.scale(80, 300) and tries < 5:
        tries += 1
        mc = G.first_order(ctx.rng("again", tries), kind)
    if kind == "quad" and mc.desc.get("renumbered"):
        ctx.reached("quad-shifted")
    if kind == "hex" and mc.desc.get("renumbered"):
        ctx.reached("hex-rotated")
    if kind in ("tri", "quad", "tet", "hex") and k % 3 == 1:
        mc = derived(ctx, rng, mc)
    if kind in ("tri", "quad", "tet", "hex") and k % 3 == 2:
        mc = G.second_order(rng, mc)
        if not mc.straight:
            ctx.reached("curved-mesh")
        if kind in ("tri", "tet") and k % 2 == 0:
            # class-default constructor with cells in arbitrary local order (what a mesh generator delivers)
            from dataclasses import replace
            m = mc.mesh
            t = np.array(m.t)
            perm = np.array([rng.permutation(t.shape[0]) for _ in range(t.shape[1])]).T
            t = np.take_along_axis(t, perm, axis=0)
            m = replace(m, t=t)
            mc = G.MeshCase(m, kind, 2, dict(mc.desc, unsorted_cells=True), affine_cells=mc.affine_cells,
                            straight=mc.straight, planar_faces=mc.planar_faces)
    return mc


def records_with_claim(kind):
    out = []
    for r in EL.all_for_kind(kind):
        if r.skeleton or r.name.startswith("DG("):
            continue
        comps = component_records(r)
        if any(c.conforming or c.nonconforming or c.c1 for c in comps):
            out.append(r)
    return out


def gen_case(kind):
    def fn(ctx, k):
        if kind == "wedge":
            recs = records_with_claim(kind)
            rec = recs[k % len(recs)]
            mc = G.wedge_mesh(ctx.rng())
            done = 0
            for nvf_ in (3, 4):
                try:
                    check_mesh_elem(ctx, mc, rec, only_nvf=nvf_)
                    done += 1
                except Skip:
                    pass
            if done:
                ctx.reached("prism-faces-of-both-kinds" if done == 2 else "prism-faces-of-one-kind")
            return
        recs = records_with_claim(kind)
        rec = recs[k % len(recs)]
        rng = ctx.rng()
        mc = pick_mesh(ctx, rng, rec, k // len(recs) + k)
        if mc.order == 2 and any(r.family == "global" for r in component_records(rec)):
            raise Skip("global-element-needs-first-order-mesh")
        if mc.kind != kind:
            # a simplex mesh split off a quadrilateral / hexahedral one: judged with a simplex element of the same family
            alt = [r for r in records_with_claim(mc.kind) if r.family == rec.family and not r.name.startswith(("Vector(", "Composite("))]
            if not alt:
                raise Skip("no-element-for-the-split-mesh")
            rec = alt[int(rng.integers(len(alt)))]
        if mc.desc.get("unsorted_by_caller"):
            # the caller's explicit choice (sort_t=False / oriented()): the statement keeps these meshes for elements
            # with at most one DOF per facet and edge
            e_ = rec.make()
            multi = max(getattr(e_, "facet_dofs", 0), getattr(e_, "edge_dofs", 0)) > 1 or any(
                max(getattr(c_, "facet_dofs", 0), getattr(c_, "edge_dofs", 0)) > 1 for c_ in getattr(e_, "elems", []))
            if multi:
                ctx.drop("unsorted-triangles:element-with-several-dofs-per-facet-is-outside-the-claim")
                return
        check_mesh_elem(ctx, mc, rec)
        if rec.family == "global" and rec.name in ("ElementTriMorley", "ElementLineHermite", "ElementTriHermite",
                                                   "ElementTriArgyris", "ElementTri15ParamPlate", "ElementQuadBFS",
                                                   "ElementHexC1"):
            vertex_continuity(ctx, mc, rec)
    return fn


DIRECTED_OPS = ("adaptive", "adaptive-twice", "used-elsewhere", "uniform", "restrict", "mirrored", "oriented", "used-oriented",
                "used-mirrored")
DIRECTED_ELEMS = {"tri": ("ElementTriP3", "ElementTriRT2", "ElementTriN2", "ElementTriP2", "ElementTriP4"),
                  "tet": ("ElementTetP2", "ElementTetN1", "ElementTetRT1")}


def derived_directed(ctx, k):
    """Every library operation of `derived` x elements with several DOFs per facet (and the single-DOF ones in 3-D), on
    small meshes: the random draw of the gen-* families reaches each pair only now and then."""
    rng = ctx.rng()
    kind = ("tri", "tri", "tet")[k % 3]
    combos = [(o, e) for o in DIRECTED_OPS for e in DIRECTED_ELEMS[kind]]
    op, ename = combos[(k // 3) % len(combos)]
    rec = EL.by_name(ename)
    for attempt in range(6):
        mc = G.first_order(ctx.rng("mesh", attempt), kind)
        if mc.mesh.t.shape[1] <= (40 if kind == "tri" else 12):
            break
    else:
        mc0 = G.first_order(rng, kind)
        S = np.sort(rng.choice(mc0.mesh.t.shape[1], size=min(mc0.mesh.t.shape[1], 30 if kind == "tri" else 8), replace=False))
        p, t = G.clean(np.asarray(mc0.mesh.p), np.asarray(mc0.mesh.t)[:, S].astype(np.int64))
        mc = G.MeshCase(type(mc0.mesh)(p, t), kind, 1, dict(mc0.desc, subset=True))
    mc2 = derived(ctx, rng, mc, op=op)
    if mc2 is mc:
        raise Skip("derived-operation-not-applied")
    if mc2.desc.get("unsorted_by_caller"):
        # oriented(): cells in the caller's local order; the statement keeps these meshes for elements with at most one
        # DOF per facet and edge (see gen_case), so the operation is paired with those
        e_ = rec.make()
        if max(getattr(e_, "facet_dofs", 0), getattr(e_, "edge_dofs", 0)) > 1:
            single = ("ElementTriP2", "ElementTriRT1", "ElementTriN1", "ElementTriCR")
            rec = EL.by_name(single[(k // 3) % len(single)])
            ctx.drop("unsorted-triangles:element-with-several-dofs-per-facet-replaced")
    check_mesh_elem(ctx, mc2, rec)
    ctx.reached("derived-directed:" + op)


def line_case(ctx, k):
    """1-D: continuity at the shared vertices (no InteriorFacetBasis in 1-D)."""
    recs = [r for r in records_with_claim("line") if not r.name.startswith(("Vector(", "Composite("))]  # scalar records
    rec = recs[k % len(recs)]
    rng = ctx.rng()
    if rec.family == "global":
        from .c09 import wellshaped
        mc = wellshaped(rng, "line", False)
    else:
        mc = G.line_mesh(rng)
    import skfem
    mesh = mc.mesh
    t = np.asarray(mesh.t)
    elem = rec.make()
    dofs = skfem.assembly.Dofs(mesh, elem)
    xvec = rng.standard_normal(dofs.N)
    ed = np.asarray(dofs.element_dofs)
    Pref = GEO.ref_vertices("line")
    vals = np.zeros((2, t.shape[1]))
    mag = np.zeros((2, t.shape[1]))
    ders = np.zeros((2, t.shape[1]))
    for i in range(ed.shape[0]):
        f = rec.make().gbasis(mesh.mapping(), Pref, i)[0]
        vals += (xvec[ed[i]][:, None] * np.array(f)).T
        mag += (np.abs(xvec[ed[i]])[:, None] * np.abs(np.array(f))).T
        ders += (xvec[ed[i]][:, None] * f.grad[0]).T
    byv = {}
    for c in range(t.shape[1]):
        for l in range(2):
            byv.setdefault(int(t[l, c]), []).append((c, l))
    worst = worstd = 0.0
    shared = 0
    hmin = float(np.abs(mesh.p[0, t[1]] - mesh.p[0, t[0]]).min())
    for v, lst in byv.items():
        if len(lst) < 2:
            continue
        shared += 1
        sc = max(mag[l, c] for c, l in lst) + 1e-300
        worst = max(worst, float(np.ptp([vals[l, c] for c, l in lst])) / sc)
        worstd = max(worstd, float(np.ptp([ders[l, c] for c, l in lst])) / (sc / hmin * 10))
    ctx.check("value-continuous", worst <= 1e-9, mech=f"line-value:{rec.name}", elem=rec.name, worst=worst, desc=mc.desc)
    if rec.c1:
        ctx.check("gradient-continuous", worstd <= 1e-7, mech=f"line-derivative:{rec.name}", elem=rec.name,
                  worst=worstd, desc=mc.desc)
    if shared:
        ctx.nontrivial(rec.name, "MeshLine1", "vertex", mc.desc.get("style"))


def docs_meshes(ctx, k):
    import skfem
    files = sorted(glob.glob(os.path.join(REPO, G.DOCS_MESHES, "*.msh")) +
                   glob.glob(os.path.join(REPO, G.DOCS_MESHES, "*.json")))
    done = 0
    for f in files:
        try:
            m = skfem.io.json.from_file(f) if f.endswith(".json") else skfem.Mesh.load(f)
            kind = G.kind_of(m)
        except Exception:
            ctx.drop("docs-mesh-unreadable")
            continue
        if m.t.shape[1] > 1500 or kind in ("line", "wedge"):
            ctx.drop("docs-mesh-skipped")
            continue
        order = G.order_of(m)
        unsorted = order == 2 and kind in ("tri", "tet") and not (np.diff(np.asarray(m.t), axis=0) > 0).all()
        mc = G.MeshCase(m, kind, order, {"gen": "docs", "file": os.path.basename(f), "unsorted_cells": bool(unsorted)},
                        affine_cells=(kind in ("tri", "tet") and order == 1), straight=False)
        recs = [r for r in records_with_claim(kind) if not any(c.family == "global" or c.mesh_req != "any"
                                                               for c in component_records(r))]
        rng = ctx.rng(os.path.basename(f))
        try:
            for rec in [recs[i] for i in rng.choice(len(recs), size=min(len(recs), ctx.scale(4, 12)), replace=False)]:
                check_mesh_elem(ctx, mc, rec, {"file": os.path.basename(f)})
        except Skip as e:
            ctx.drop("docs-mesh:" + str(e))
            continue
        done += 1
    ctx.reached("docs-mesh", done)


FAMILIES = [Family("line", line_case, 12, 240)]
for kd, mult_q, mult_t in (("tri", 2, 40), ("quad", 2, 40), ("tet", 2, 30), ("hex", 2, 24), ("wedge", 4, 40)):
    FAMILIES.append(Family("gen-" + kd, gen_case(kd),
                           (lambda c, kd=kd, a=mult_q, b=mult_t: len(records_with_claim(kd)) * (a if c.tier == "quick" else b)),
                           (lambda c, kd=kd, a=mult_q, b=mult_t: len(records_with_claim(kd)) * (a if c.tier == "quick" else b)),
                           budget={"quick": 40, "thorough": 900}))
FAMILIES.append(Family("docs-meshes", docs_meshes, 1, 2, budget={"quick": 60, "thorough": 300}))
FAMILIES.append(Family("derived-directed", derived_directed, 3 * 45, 3 * 45 * 4, budget={"quick": 40, "thorough": 300}))
