"""C08 Quadrature rules deliver their advertised degree on every reference cell.

Monitor: postcondition on every `get_quadrature(refdom_or_elem, n)` return/raise,
driven exhaustively over (reference cell, order, spelling).  Oracle: exact rational
moments of the reference cell (rv.exact), independent of the tables.
"""
from __future__ import annotations

import numpy as np

from ..engine import Family
from .. import exact

PID = "C08"
EXHAUSTIVE = True
RULE = ("exhaustive sweep: every reference cell x every integer order from -2 to (largest accepted)+3 "
        "(Gauss-based cells capped, see notes) x spellings (Refdom class, Element class, Element instance, "
        "numpy integer order); each accepted (cell, order) is one case, non-trivial iff the rule has >= 2 nodes; "
        "for each, every monomial of total degree <= n (per-direction <= n on quad/hex, triangle-total x line "
        "on the prism) is compared with its exact rational moment")
ASSUMPTIONS = ["orders above the caps (line 80, quad 40, hex 24/40) of the Gauss-Legendre generated rules are "
               "not swept; they come from numpy.polynomial.legendre.leggauss through the same code path"]
TRACK = ["skfem.quadrature:get_quadrature", "skfem.quadrature:get_quadrature_tet",
         "skfem.quadrature:get_quadrature_tri", "skfem.quadrature:get_quadrature_line",
         "skfem.quadrature:get_quadrature_point"]
REQUIRED_MONITORS = ["moments-exact", "weights-sum-to-measure", "nodes-in-closed-cell",
                     "unsupported-order-raises", "spellings-agree", "rule-after-caller-modified-earlier-result"]
REQUIRED_REACH = ["raise-path:tri", "raise-path:tet", "earlier-result-modified-in-place", "orders-far-beyond-the-tables",
                  "second-pass-other-order", "every-registry-element-as-first-argument"]

CELLS = {
    # name: (refdom attr, dim, kind, measure)
    "point": ("RefPoint", 0, "point", exact.F(1)),
    "line": ("RefLine", 1, "cube", exact.F(1)),
    "tri": ("RefTri", 2, "simplex", exact.F(1, 2)),
    "quad": ("RefQuad", 2, "cube", exact.F(1)),
    "tet": ("RefTet", 3, "simplex", exact.F(1, 6)),
    "hex": ("RefHex", 3, "cube", exact.F(1)),
    "wedge": ("RefWedge", 3, "prism", exact.F(1, 2)),
}
ELEMS = {"line": "ElementLineP1", "tri": "ElementTriP1", "quad": "ElementQuad1",
         "tet": "ElementTetP1", "hex": "ElementHex1", "wedge": "ElementWedge1"}


def cap(cell, ctx):
    if cell in ("tri", "tet", "wedge", "point"):
        return 30  # tables end well before this; sweep stops 3 past the last accepted order
    return {"line": 80, "quad": 40, "hex": ctx.scale(24, 40)}[cell]


def inside(cell, X, slack=1e-14):
    if cell == "point":
        return True
    if cell in ("line", "quad", "hex"):
        return bool((X >= -slack).all() and (X <= 1 + slack).all())
    if cell in ("tri", "tet"):
        return bool((X >= -slack).all() and (X.sum(0) <= 1 + slack).all())
    if cell == "wedge":
        return bool((X >= -slack).all() and (X[:2].sum(0) <= 1 + slack).all() and (X[2] <= 1 + slack).all())


def moments_check(ctx, cell, n, X, W):
    """Compare all required moments; returns (n_checked, worst) and records violations."""
    _, d, kind, _ = CELLS[cell]
    if d == 0 or n < 0:
        return 0
    P = [np.stack([X[i] ** a for a in range(n + 1)]) for i in range(d)]  # (n+1, nq)
    aP = [np.abs(p) for p in P]
    aW = np.abs(W)
    if d == 1:
        num = P[0] @ W
        mag = aP[0] @ aW
        exps = [(a,) for a in range(n + 1)]
        get = lambda e: (num[e[0]], mag[e[0]])
    elif d == 2:
        num = np.einsum("aq,bq,q->ab", P[0], P[1], W)
        mag = np.einsum("aq,bq,q->ab", aP[0], aP[1], aW)
        exps = exact.monomials_tensor(2, n) if kind == "cube" else exact.monomials_total(2, n)
        get = lambda e: (num[e], mag[e])
    else:
        t = np.einsum("aq,bq->abq", P[0], P[1])
        num = np.einsum("abq,cq,q->abc", t, P[2], W)
        t = np.einsum("aq,bq->abq", aP[0], aP[1])
        mag = np.einsum("abq,cq,q->abc", t, aP[2], aW)
        if kind == "cube":
            exps = exact.monomials_tensor(3, n)
        elif kind == "simplex":
            exps = exact.monomials_total(3, n)
        else:
            exps = [e for e in exact.monomials_tensor(3, n) if e[0] + e[1] <= n]
        get = lambda e: (num[e], mag[e])
    mom = {"simplex": exact.mom_simplex, "cube": exact.mom_cube, "prism": exact.mom_prism}[kind]
    bad = []
    worst = 0.0
    for e in exps:
        ref = float(mom(e))
        got, m = get(e)
        tol = 1e-14 * (2 + sum(e)) * (m + abs(ref))  # node rounding grows with the degree
        err = abs(got - ref)
        worst = max(worst, err / (m + abs(ref)))
        if not (err <= tol):
            bad.append((e, float(got), ref, float(err)))
    ctx.ok("moments-exact", len(exps) - len(bad))

    def mech():
        # explicit predicates for mechanisms that have been triaged (see known_findings.json)
        degs = sorted({sum(e) for e, *_ in bad})
        if cell == "wedge":
            return "wedge-rule-not-product-of-triangle-and-line"
        if cell == "tet" and degs == [n]:
            return "tet-table-exact-only-to-degree-n-minus-1"
        return f"moments:{cell}"
    if bad:
        ctx.check("moments-exact", False, mech=mech, cell=cell, order=n, nodes=int(W.size),
                  failing_monomials=len(bad), of=len(exps), first=bad[:4])
    if worst > ctx.max_err.get("moments-exact", 0.0) and not bad:
        ctx.max_err["moments-exact"] = worst
    return len(exps)


def judge_rule(ctx, cell, n, X, W):
    """Oracle on one delivered rule (also attached to get_quadrature under the repository suite)."""
    _, d, kind, measure = CELLS[cell]
    if n < 1:
        n_eff = n
    wedge_mech = "wedge-rule-not-product-of-triangle-and-line" if cell == "wedge" else None
    ctx.check("shape", X.ndim == 2 and X.shape[0] == d and W.ndim == 1 and X.shape[1] == W.size,
              mech=f"shape:{cell}", cell=cell, order=n, X=X.shape, W=W.shape)
    ctx.close("weights-sum-to-measure", W.sum(), float(measure), rtol=5e-14,
              scale=float(np.abs(W).sum() + measure), mech=wedge_mech or f"weights:{cell}",
              cell=cell, order=n, nodes=int(W.size))
    ctx.check("nodes-in-closed-cell", inside(cell, X), mech=wedge_mech or f"nodes-outside:{cell}",
              cell=cell, order=n, worst=lambda: float(np.max(X)) if X.size else 0.0)
    return moments_check(ctx, cell, n, X, W)


def sweep_cell(cell):
    def fn(ctx, k):
        import skfem
        from skfem import quadrature, refdom as rd
        from skfem import element as el
        refdom_name, d, kind, measure = CELLS[cell]
        refdom = getattr(rd, refdom_name)
        spellings = [("refdom", refdom)]
        if cell in ELEMS:
            E = getattr(el, ELEMS[cell])
            spellings += [("element-class", E), ("element-instance", E())]
        top = cap(cell, ctx)
        last_ok = None
        n = -2
        accepted = []
        while n <= top:
            try:
                X, W = quadrature.get_quadrature(refdom, n)
                ok = True
            except Exception as e:  # an unsupported order must raise
                ok = False
                err = e
            if not ok:
                ctx.check("unsupported-order-raises", isinstance(err, (NotImplementedError, KeyError, ValueError)),
                          mech=f"raise-type:{cell}", cell=cell, order=n, error=repr(err))
                ctx.reached(f"raise-path:{cell}")
                if last_ok is not None and n > last_ok + 3:
                    break
                n += 1
                continue
            last_ok = n
            accepted.append(n)
            X = np.asarray(X, dtype=float)
            W = np.asarray(W, dtype=float)
            nm = judge_rule(ctx, cell, n, X, W)
            if W.size >= 2:
                ctx.nontrivial(cell, n)
            ctx.sample({"cell": cell, "order": n, "nodes": int(W.size), "monomials_checked": nm,
                        "sum_w": float(W.sum())}, per_family=2)
            # spellings: element class / instance / numpy integer order give the same rule
            for sname, sp in spellings[1:] + [("numpy-int-order", refdom)]:
                nn = np.int64(n) if sname == "numpy-int-order" else n
                try:
                    X2, W2 = quadrature.get_quadrature(sp, nn)
                    same = np.array_equal(X2, X) and np.array_equal(W2, W)
                except Exception as e:
                    same = False
                ctx.check("spellings-agree", same, mech=f"spelling:{sname}", cell=cell, order=n, spelling=sname)
            # "the returned rule" of every request: a caller that scaled the arrays it got (W *= |det|, X -= ...)
            # in place must not change what the next request returns
            try:
                Xm, Wm = quadrature.get_quadrature(refdom, n)
                wrote = False
                for arr in (Xm, Wm):
                    if isinstance(arr, np.ndarray) and arr.flags.writeable and arr.size:
                        arr *= 3.0
                        arr += 0.125
                        wrote = True
                X3, W3 = quadrature.get_quadrature(refdom, n)
                ctx.check("rule-after-caller-modified-earlier-result",
                          np.array_equal(np.asarray(X3, dtype=float), X) and np.array_equal(np.asarray(W3, dtype=float), W),
                          mech=f"returned-arrays-shared-between-requests:{cell}", cell=cell, order=n)
                if wrote:
                    ctx.reached("earlier-result-modified-in-place")
            except Exception as e:
                ctx.check("rule-after-caller-modified-earlier-result", False, mech=f"second-request-raises:{cell}", cell=cell,
                          order=n, error=repr(e))
            n += 1
        ctx.notes[f"accepted_orders:{cell}"] = [accepted[0], accepted[-1], len(accepted)] if accepted else []
        if cell in ("line", "quad", "hex", "point"):
            ctx.reached(f"raise-path:{cell}", 0)
    return fn


def far_orders(ctx, k):
    """Orders far beyond the tables of the simplex / prism rules: an exception or a rule that keeps the promise, never a
    weaker rule (a clamp or a .get(n, last) fallback that only acts above the swept range)."""
    from skfem import quadrature, refdom as rd
    for cell in ("tri", "tet", "wedge"):
        refdom = getattr(rd, CELLS[cell][0])
        # (no huge orders for the prism: its line factor is a Gauss rule of any order, whose cost grows with the order)
        for n in list(range(23, 65)) + ([100, 255, 2 ** 15, 2 ** 31 - 1, -1000] if cell != "wedge" else [-1000]):
            try:
                X, W = quadrature.get_quadrature(refdom, n)
            except Exception as e:
                ctx.check("unsupported-order-raises", isinstance(e, (NotImplementedError, KeyError, ValueError)),
                          mech=f"raise-type:{cell}", cell=cell, order=n, error=repr(e))
                continue
            if n > 64:
                ctx.check("unsupported-order-raises", False, mech=f"huge-order-accepted:{cell}", cell=cell, order=n, nodes=int(np.size(W)))
                continue
            judge_rule(ctx, cell, n, np.asarray(X, dtype=float), np.asarray(W, dtype=float))
    ctx.reached("orders-far-beyond-the-tables")


def spellings(ctx, k):
    """Other spellings of the same request: integer types of the order, every element of the registry (and wrappers) as
    the first argument, the table functions called directly, requests in descending / shuffled order."""
    from skfem import quadrature, refdom as rd
    from ..gen import elements as EL
    rng = ctx.rng()
    first = {}
    for cell, (refdom_name, d, kind, measure) in CELLS.items():
        refdom = getattr(rd, refdom_name)
        orders = [n for n in range(0, min(cap(cell, ctx), 12) + 1)]
        for n in orders:
            try:
                first[(cell, n)] = quadrature.get_quadrature(refdom, n)
            except Exception:
                first[(cell, n)] = None
        for n in rng.permutation(orders)[:6]:
            n = int(n)
            base = first[(cell, n)]
            for nm, nn in (("int32", np.int32(n)), ("int16", np.int16(n)), ("uint8", np.uint8(n)) if n >= 0 else ("int8", np.int8(n)),
                           ("intp", np.intp(n)), ("float", float(n)), ("float64", np.float64(n))):
                try:
                    got = quadrature.get_quadrature(refdom, nn)
                except Exception:
                    if base is not None and not nm.startswith("float"):
                        ctx.check("spellings-agree", False, mech=f"integer-order-rejected:{nm}", cell=cell, order=n)
                    else:
                        ctx.tolerated("spellings-agree")
                    continue
                if base is None:
                    ctx.check("spellings-agree", False, mech=f"order-accepted-only-as:{nm}", cell=cell, order=n)
                    continue
                same = np.array_equal(got[0], base[0]) and np.array_equal(got[1], base[1])
                if nm.startswith("float") and not same:
                    # an integral float may get another rule, but never a weaker one
                    judge_rule(ctx, cell, n, np.asarray(got[0], dtype=float), np.asarray(got[1], dtype=float))
                else:
                    ctx.check("spellings-agree", same, mech=f"spelling:order-as-{nm}", cell=cell, order=n)
    # descending and shuffled second pass: bit for bit the first answers
    keys = list(first)
    for idx in list(range(len(keys) - 1, -1, -1)) + [int(i) for i in rng.permutation(len(keys))]:
        cell, n = keys[idx]
        refdom = getattr(rd, CELLS[cell][0])
        try:
            got = quadrature.get_quadrature(refdom, n)
        except Exception:
            got = None
        base = first[(cell, n)]
        ctx.check("spellings-agree", (got is None) == (base is None) and (got is None or (
            np.array_equal(got[0], base[0]) and np.array_equal(got[1], base[1]))), mech="answer-depends-on-request-order",
            cell=cell, order=n)
    ctx.reached("second-pass-other-order")
    # every element of the registry (and its wrappers) as first argument gives the rule of its cell
    kind2cell = {"line": "line", "tri": "tri", "quad": "quad", "tet": "tet", "hex": "hex", "wedge": "wedge"}
    for kd in G_KINDS:
        for rec in EL.all_for_kind(kd):
            for n in (2, 5):
                base = first.get((kind2cell[kd], n))
                if base is None:
                    continue
                try:
                    got = quadrature.get_quadrature(rec.make(), n)
                except Exception as e:
                    ctx.check("spellings-agree", False, mech="element-as-first-argument-raises", elem=rec.name, order=n, error=repr(e)[:120])
                    continue
                ctx.check("spellings-agree", np.array_equal(got[0], base[0]) and np.array_equal(got[1], base[1]),
                          mech="element-gets-another-cells-rule", elem=rec.name, order=n)
    ctx.reached("every-registry-element-as-first-argument")
    # the table functions called directly
    for fn, cell in (("get_quadrature_tri", "tri"), ("get_quadrature_tet", "tet"), ("get_quadrature_line", "line")):
        f = getattr(quadrature, fn, None)
        if f is None:
            continue
        for n in (1, 2, 4, 6):
            base = first.get((cell, n))
            try:
                got = f(n)
            except Exception:
                got = None
            if base is None or got is None:
                ctx.check("spellings-agree", (base is None) == (got is None), mech=f"direct-table-function-differs:{fn}", order=n)
                continue
            ctx.check("spellings-agree", np.array_equal(np.asarray(got[0]), np.asarray(base[0])) and
                      np.array_equal(np.asarray(got[1]), np.asarray(base[1])), mech=f"direct-table-function-differs:{fn}", order=n)


G_KINDS = ("line", "tri", "quad", "tet", "hex", "wedge")


def unknown_refdom(ctx, k):
    """A reference domain the dispatcher does not know must raise, not fall through."""
    from skfem import quadrature
    from skfem.refdom import Refdom

    class RefStrange(Refdom):
        name = "strange"
    try:
        quadrature.get_quadrature(RefStrange, 2)
        raised = False
    except Exception:
        raised = True
    ctx.check("unsupported-order-raises", raised, mech="unknown-refdom-accepted")


SUITE = True   # thorough tier also runs the repository suite with this oracle attached (rv/suite_monitors.py)
FAMILIES = [Family("sweep-" + c, sweep_cell(c), quick=1, thorough=1,
                   budget={"quick": 60, "thorough": 300}) for c in CELLS]
FAMILIES.append(Family("unknown-refdom", unknown_refdom, 1, 1))
FAMILIES.append(Family("far-orders", far_orders, 1, 1, budget={"quick": 60, "thorough": 120}))
FAMILIES.append(Family("spellings", spellings, 1, 2, budget={"quick": 60, "thorough": 120}))
NPROC = {"quick": 1, "thorough": 2}
