"""C02 Integration is exact for polynomial data on cells and facets.

Oracle: rv.exact (closed-form rational integrals over straight cells / facets with the cell's own
map pulled back in Fractions) and rv.refmodel.lagrange (exact nodal bases by rational Vandermonde
inversion).  The degree rule is *computed*: the monomial is pulled back through each cell's map
and multiplied by the Jacobian polynomial; exactness is demanded only when the resulting degree
is within the strength of the rule that was requested.
"""
from __future__ import annotations

from fractions import Fraction

import numpy as np

from ..engine import Family, Skip
from ..gen import elements as EL
from ..gen import meshes as G
from .. import exact as X
from ..refmodel import lagrange as LAG

PID = "C02"
RULE = ("random straight-sided meshes with dyadic-rational vertices (segments, triangles, tetrahedra, parallelogram/"
        "general convex quadrilaterals, boxes/parallelepipeds/planar-faced hexahedra, prisms; mirrored cells; "
        "renumbered / rigidly moved / refined copies) x monomials up to the integration order x domain kind (whole "
        "mesh, tagged subdomain, arbitrary facet set) x explicit and default orders; exact local mass/stiffness/load "
        "matrices of Lagrange P0-P4, Q1, Q2; distinct key = (cell kind, geometry class, order, monomial or matrix "
        "kind, domain kind); non-trivial iff the exact value is non-zero and the mesh has >= 2 cells")
TRACK = ["skfem.assembly.basis.cell_basis:CellBasis.__init__", "skfem.assembly.basis.facet_basis:FacetBasis.__init__",
         "skfem.mapping.mapping_affine:MappingAffine.detDF", "skfem.mapping.mapping_isoparametric:MappingIsoparametric.detDF",
         "skfem.mapping.mapping_isoparametric:MappingIsoparametric.detDG", "skfem.quadrature:get_quadrature"]
REQUIRED_MONITORS = ["cell-functional-exact", "facet-functional-exact", "subdomain-functional-exact",
                     "mass-matrix-exact", "stiffness-matrix-exact", "load-vector-exact", "mass-sum-is-measure",
                     "copies-agree"]
REQUIRED_REACH = ["negative-det-cells", "non-affine-cells", "default-order", "facet-subset", "rigid-motion",
                  "refined-copy", "renumbered-copy", "rigid-motion-by-library", "tagged-subdomain-through-refinement",
                  "tagged-facets-through-refinement", "degree-beyond-strength-skipped",
                  "equal-size-subdomains-on-one-mesh", "overlapping-tags-union", "overlapping-facet-tags-union",
                  "input:small-units", "input:float32-vertices", "input:non-contiguous-arrays",
                  "interior-facet-basis-with-order", "every-cell-order", "every-facet-order", "facet-basis-default-order",
                  "interior-facet-basis-default-order", "straight-second-order-copy", "elemental-values"]
ASSUMPTIONS = ["vertex coordinates are taken as the exact rational values of the doubles stored in the mesh",
               "nodal bases of the exact reference use the nearest small rationals (denominator <= 64) to the "
               "element's tabulated reference nodes"]


def frpoint(col):
    return [X.fr(v) for v in col]


def cell_verts(mesh, kind, c):
    return [frpoint(mesh.p[:, v]) for v in mesh.t[:G.NVERT[kind], c]]


def within_strength(pb, ref, n):
    if not pb:
        return True, 0
    d = len(next(iter(pb)))
    if ref == "simplex":
        deg = X.pdeg(pb)
        return deg <= n, deg
    if ref == "cube":
        dd = X.pdeg_per_dir(pb, d)
        return max(dd) <= n, dd
    tri = max(e[0] + e[1] for e in pb)
    return (tri <= n and max(e[2] for e in pb) <= n), (tri, max(e[2] for e in pb))


def exact_cells(mesh, kind, poly, cells, n):
    """Exact ∫ over the listed cells; returns (Fraction, scale, ok_degree, negative_det_seen, degree info)."""
    total = Fraction(0)
    scale = 0.0
    okdeg = True
    neg = False
    info = None
    for c in cells:
        verts = cell_verts(mesh, kind, c)
        mp, ref = X.cell_map(kind, verts)
        jd = X.jacobian_det(mp)
        s = X.sign_const_on_corners(jd, ref)
        if s is None:
            return None
        neg |= s < 0
        pb = X.pmul(X.pcompose(poly, mp, len(mp) if kind != "wedge" else 3), jd)
        ok, info = within_strength(pb, ref, n)
        okdeg &= ok
        val = s * X.int_ref(pb, ref)
        total += val
        vol = float(s * X.int_ref(jd, ref))
        scale += abs(float(val)) + vol * max(abs(float(X.peval(poly, v))) for v in verts)
        PER_CELL.append(float(val))
    return total, scale, okdeg, neg, info


PER_CELL = []          # exact value per cell of the last exact_cells call (cleared by the caller that wants it)


def monomial_poly(e):
    return {tuple(int(a) for a in e): Fraction(1)}


def poly_fn(e):
    def f(w):
        x = w["x"]
        out = 1.0
        for i, a in enumerate(e):
            if a:
                out = out * x[i] ** a
        return out + 0 * x[0]
    return f


P1ELEM = {"line": "ElementLineP1", "tri": "ElementTriP1", "quad": "ElementQuad1", "tet": "ElementTetP1",
          "hex": "ElementHex1", "wedge": "ElementWedge1"}
MAXORDER = {"line": 12, "tri": 19, "quad": 10, "tet": 8, "hex": 7, "wedge": 7}


def input_variant(ctx, rng, mc):
    """The same rational mesh handed to the constructor in other units / array types: micrometre-size cells (power
    of two scaling keeps every number exact), float32 vertex arrays (only when every coordinate is a float32),
    non-contiguous arrays."""
    m = mc.mesh
    r = rng.random()
    p, t = np.asarray(m.p), np.asarray(m.t)
    desc = dict(mc.desc)
    if r < 0.5:
        return mc
    if r < 0.7:
        p2, t2 = p * 2.0 ** -24, t
        desc["units"] = "2^-24"
        ctx.reached("input:small-units")
    elif r < 0.85:
        if mc.kind in ("line", "tri", "tet") and float(np.abs(p).max()) < 2.0:
            # use all 24 bits: differences and products of such coordinates are not float32 numbers any more
            # (relative perturbation: every coordinate a full 24-bit mantissa at its own exponent)
            p = (p * (1.0 + rng.integers(-64, 65, size=p.shape) * 2.0 ** -20)).astype(np.float32).astype(np.float64)
            desc["perturbed"] = "relative 2^-14, rounded to float32"
        p32 = p.astype(np.float32)
        if not np.array_equal(p32.astype(np.float64), p):
            return mc
        p2, t2 = p32, t
        desc["vertex_dtype"] = "float32"
        ctx.reached("input:float32-vertices")
    else:
        buf = np.zeros((p.shape[0], 2 * p.shape[1]))
        buf[:, ::2] = p
        p2, t2 = buf[:, ::2], np.asfortranarray(t.astype(np.int64))
        desc["arrays"] = "strided/F-order/int64"
        ctx.reached("input:non-contiguous-arrays")
    return G.MeshCase(type(m)(p2, t2), mc.kind, mc.order, desc, affine_cells=mc.affine_cells, straight=mc.straight,
                      planar_faces=mc.planar_faces)


def gen_mesh(ctx, rng, kind, k):
    mc = G.first_order(rng, kind)
    tries = 0
    while mc.mesh.t.shape[1] > ctx.scale(28, 60) or (kind == "hex" and not mc.planar_faces):
        tries += 1
        mc = G.first_order(ctx.rng("retry", tries), kind)
        if tries > 20:
            raise Skip("no-suitable-mesh")
    geom = "affine" if mc.affine_cells else "multilinear"
    if k % 5 == 3 and kind != "line":
        p = np.array(mc.mesh.p)
        p[0] = -p[0]
        mc = G.MeshCase(type(mc.mesh)(p, np.array(mc.mesh.t)), kind, 1, dict(mc.desc, mirrored=True),
                        affine_cells=mc.affine_cells, planar_faces=mc.planar_faces)
        geom += "-mirrored"
    return input_variant(ctx, rng, mc), geom


def rand_exps(rng, d, n, count):
    out = []
    for _ in range(count):
        deg = int(rng.integers(0, n + 1))
        e = np.zeros(d, dtype=int)
        for _ in range(deg):
            e[int(rng.integers(d))] += 1
        out.append(tuple(int(a) for a in e))
    out.append((n,) + (0,) * (d - 1))
    out.append((0,) * (d - 1) + (n,))
    return list(dict.fromkeys(out))


# ------------------------------------------------------------- functionals
def cell_functionals(ctx, k, kind):
    import skfem
    rng = ctx.rng()
    mc, geom = gen_mesh(ctx, rng, kind, k)
    mesh = mc.mesh
    d = mc.dim
    nt = mesh.t.shape[1]
    elem = getattr(skfem, P1ELEM[kind])
    default = (k % 4 == 0)
    n = 2 * elem().maxdeg if default else int(rng.integers(0, MAXORDER[kind] + 1))
    if default:
        ctx.reached("default-order")
    basis = skfem.CellBasis(mesh, elem()) if default else skfem.CellBasis(mesh, elem(), intorder=n)
    S = np.sort(rng.choice(nt, size=max(1, nt // 3), replace=False)).astype(np.int32)
    tagged = mesh.with_subdomains({"sub": S})
    kw = {} if default else {"intorder": n}
    bsub = skfem.CellBasis(tagged, elem(), elements="sub", **kw)
    doms = [("whole", basis, range(nt)), ("subdomain", bsub, S)]
    if nt >= 3:
        # a second subdomain of the same size but other cells, and the union of two overlapping tags, all on the
        # same mesh object as the first ("any tagged subdomain")
        S2 = np.sort(rng.choice(nt, size=S.size, replace=False)).astype(np.int32)
        if np.array_equal(S2, S):
            S2 = np.sort((S + 1) % nt).astype(np.int32)
        tagged = tagged.with_subdomains({"sub": S, "sub2": S2})
        bsub = skfem.CellBasis(tagged, elem(), elements="sub", **kw)
        doms[1] = ("subdomain", bsub, S)
        doms.append(("subdomain", skfem.CellBasis(tagged, elem(), elements="sub2", **kw), S2))
        doms.append(("subdomain", skfem.CellBasis(tagged, elem(), elements=["sub", "sub2"], **kw), np.union1d(S, S2)))
        ctx.reached("equal-size-subdomains-on-one-mesh")
        if np.intersect1d(S, S2).size:
            ctx.reached("overlapping-tags-union")
    nexp = ctx.scale(4, 8)
    for e in rand_exps(rng, d, max(n, 0), nexp):
        poly = monomial_poly(e)
        for which, b, cells in doms:
            r = exact_cells(mesh, kind, poly, cells, n)
            if r is None:
                ctx.drop("jacobian-sign-changes")
                continue
            total, scale, okdeg, neg, info = r
            if not okdeg:
                ctx.reached("degree-beyond-strength-skipped")
                ctx.drop("pulled-back-degree-beyond-rule")
                continue
            if neg:
                ctx.reached("negative-det-cells")
            if not mc.affine_cells:
                ctx.reached("non-affine-cells")
            got = skfem.Functional(poly_fn(e)).assemble(b)
            if which == "whole" or np.asarray(cells).size <= 12:
                # ... and cell by cell (compensating errors of neighbouring cells would cancel in the total)
                del PER_CELL[:]
                exact_cells(mesh, kind, poly, cells, n)
                per = np.array(PER_CELL)
                el = np.asarray(skfem.Functional(poly_fn(e)).elemental(b))
                ctx.close("cell-functional-exact", el, per, rtol=1e-12, scale=scale / max(1, per.size) + float(np.abs(per).max()),
                          mech=f"cell-integral-elemental:{kind}", kind=kind, geom=geom, order=n, monomial=e, domain=which)
                ctx.reached("elemental-values")
            mon = "cell-functional-exact" if which == "whole" else "subdomain-functional-exact"
            ctx.close(mon, got, float(total), rtol=1e-12, scale=scale,
                      mech=f"cell-integral:{kind}", kind=kind, geom=geom, order=n, monomial=e, domain=which,
                      desc=mc.desc, pulled_back_degree=info)
            if total != 0 and nt >= 2:
                ctx.nontrivial(kind, geom, n, "monomial", which, sum(e))
    # every order the tables offer, on this mesh: the measure and one monomial of the full degree the rule promises
    # (a wrong normalisation or node of ONE tabulated rule is otherwise seen only when the random order hits it)
    small = range(nt) if nt <= 12 else np.sort(rng.choice(nt, size=12, replace=False)).astype(np.int32)
    for n2 in range(0, MAXORDER[kind] + 1):
        b2 = skfem.CellBasis(mesh, elem(), intorder=n2) if nt <= 12 else skfem.CellBasis(mesh, elem(), elements=small, intorder=n2)
        for e2 in ((0,) * d, rand_exps(rng, d, n2, 1)[0]):
            r = exact_cells(mesh, kind, monomial_poly(e2), small, n2)
            if r is None or not r[2]:
                continue
            got = skfem.Functional(poly_fn(e2)).assemble(b2)
            ctx.close("cell-functional-exact", got, float(r[0]), rtol=1e-12, scale=r[1], mech=f"cell-integral-order-sweep:{kind}",
                      kind=kind, geom=geom, order=n2, monomial=e2, desc=mc.desc)
    ctx.reached("every-cell-order")
    ctx.sample({"kind": kind, "geom": geom, "desc": mc.desc, "order": n, "default": default, "cells": nt}, per_family=1)


# ------------------------------------------------------------------ facets
def facet_exact(mesh, kind, poly, f, n):
    """Exact (up to one final square root) ∫_facet poly dS; returns (float value, scale, ok_degree) or None."""
    fv = [int(v) for v in mesh.facets[:, f]]
    verts = [frpoint(mesh.p[:, v]) for v in dict.fromkeys(fv)]
    d = len(verts[0])
    if len(verts) <= d:  # simplex facet (point, segment, triangle)
        val, deg = X.integrate_facet_simplex(poly, verts)
        meas, _ = X.integrate_facet_simplex(X.pconst(1, d), verts)
        sc = abs(val) + meas * max(abs(float(X.peval(poly, v))) for v in verts)
        return val, sc, deg <= n
    # planar quadrilateral face with cyclic vertex order: x(a, b) bilinear
    mp = X.multilinear_map(verts, X.QUAD_CORNERS)
    da = [X.pdiff(c, 0) for c in mp]
    db = [X.pdiff(c, 1) for c in mp]
    cr = [X.padd(X.pmul(da[1], db[2]), X.pmul(da[2], db[1]), -1),
          X.padd(X.pmul(da[2], db[0]), X.pmul(da[0], db[2]), -1),
          X.padd(X.pmul(da[0], db[1]), X.pmul(da[1], db[0]), -1)]
    N = [X.peval(c, (Fraction(1, 2), Fraction(1, 2))) for c in cr]
    kmax = max(range(3), key=lambda i: abs(N[i]))
    if N[kmax] == 0:
        return None
    # planarity: cr(a, b) parallel to N identically
    for i in range(3):
        chk = X.padd(X.pscale(cr[i], N[kmax]), X.pscale(cr[kmax], N[i]), -1)
        if chk:
            return None
    # the scalar factor must not change sign on the face (convex face)
    corners = [X.peval(cr[kmax], c) / N[kmax] for c in ((0, 0), (1, 0), (1, 1), (0, 1))]
    if min(corners) <= 0:
        return None
    pb = X.pmul(X.pcompose(poly, mp, 2), cr[kmax])
    I = X.int_ref(pb, "cube") / N[kmax]
    normN = float(np.sqrt(float(sum(x * x for x in N))))
    val = float(I) * normN
    area = float(X.int_ref(cr[kmax], "cube") / N[kmax]) * normN
    sc = abs(val) + area * max(abs(float(X.peval(poly, v))) for v in verts)
    return val, sc, max(X.pdeg_per_dir(pb, 2)) <= n


def facet_functionals(ctx, k, kind):
    import skfem
    rng = ctx.rng()
    mc, geom = gen_mesh(ctx, rng, kind, k)
    mesh = mc.mesh
    d = mc.dim
    elem = getattr(skfem, P1ELEM[kind])
    nf = mesh.facets.shape[1]
    fmax = {"line": 4, "tri": 12, "quad": 12, "tet": 19, "hex": 10}[kind]
    # every order on a few boundary facets: measure and one monomial of full degree
    bfs = np.asarray(mesh.boundary_facets())
    bsel = np.sort(bfs[rng.permutation(bfs.size)[:8]]).astype(np.int32)
    if bsel.size:
        for n2 in range(0, fmax + 1):
            fb2 = skfem.FacetBasis(mesh, elem(), facets=bsel, intorder=n2)
            for e2 in ((0,) * d, rand_exps(rng, d, n2, 1)[0]):
                poly2 = monomial_poly(e2)
                tot, scale, ok = 0.0, 0.0, True
                for f in bsel:
                    r = facet_exact(mesh, kind, poly2, int(f), n2)
                    if r is None:
                        ok = False
                        break
                    tot += r[0]
                    scale += r[1]
                    ok = ok and r[2]
                if not ok:
                    continue
                got = skfem.Functional(poly_fn(e2)).assemble(fb2)
                ctx.close("facet-functional-exact", got, tot, rtol=1e-12, scale=scale, mech=f"facet-integral-order-sweep:{kind}",
                          kind=kind, geom=geom, order=n2, monomial=e2, desc=mc.desc)
        ctx.reached("every-facet-order")
    n = int(rng.integers(0, fmax + 1))
    variants = [("boundary", None)]
    F = np.sort(rng.choice(nf, size=max(1, nf // 3), replace=False)).astype(np.int32)
    variants.append(("subset", F))
    F2 = np.sort(rng.choice(nf, size=F.size, replace=False)).astype(np.int32)
    variants.append(("subset", F2))                       # same size, other facets, same mesh object
    bf = mesh.boundary_facets()
    if bf.size >= 3:
        # a list of tags names the union of the tagged sets, overlapping or not
        A = np.sort(rng.choice(bf, size=max(2, bf.size // 2), replace=False)).astype(np.int32)
        B = np.union1d(rng.choice(A, size=max(1, A.size // 2), replace=False),
                       rng.choice(bf, size=1)).astype(np.int32)
        mesh = mesh.with_boundaries({"a": A, "b": B})
        variants.append(("tag-list", ["a", "b"]))
        variants.append(("tag-tuple", ("b", "a", "b")))
    itf = np.nonzero(np.asarray(mesh.f2t)[1] >= 0)[0]
    if itf.size and kind != "line":
        variants.append(("interior-side0", "interior0"))
        variants.append(("interior-side1", "interior1"))
    for which, facets in variants:
        if isinstance(facets, str) and facets.startswith("interior"):
            fb = skfem.InteriorFacetBasis(mesh, elem(), intorder=n, side=int(facets[-1]))
            ctx.reached("interior-facet-basis-with-order")
        else:
            fb = skfem.FacetBasis(mesh, elem(), intorder=n) if facets is None else \
                skfem.FacetBasis(mesh, elem(), facets=facets, intorder=n)
        flist = mesh.boundary_facets() if facets is None else (itf if isinstance(facets, str) and facets.startswith("interior") else facets)
        if which.startswith("tag-"):
            flist = np.union1d(A, B)
            ctx.reached("overlapping-facet-tags-union")
        if facets is not None:
            ctx.reached("facet-subset")
        for e in rand_exps(rng, d, n, ctx.scale(3, 6)):
            poly = monomial_poly(e)
            tot, scale, ok = 0.0, 0.0, True
            for f in flist:
                r = facet_exact(mesh, kind, poly, int(f), n)
                if r is None:
                    ok = None
                    break
                v, sc, okd = r
                tot += v
                scale += sc
                ok &= okd
            if ok is None:
                ctx.drop("facet-not-planar-convex")
                continue
            if not ok:
                ctx.reached("degree-beyond-strength-skipped")
                ctx.drop("pulled-back-degree-beyond-rule")
                continue
            got = skfem.Functional(poly_fn(e)).assemble(fb)
            ctx.close("facet-functional-exact", got, tot, rtol=1e-12, scale=scale, mech=f"facet-integral:{kind}",
                      kind=kind, geom=geom, order=n, monomial=e, domain=which, desc=mc.desc)
            if tot != 0:
                ctx.nontrivial(kind, geom, n, "facet-monomial", which, sum(e))


# ------------------------------------------------------ exact local matrices
LAGRANGE = {
    "line": [("ElementLineP0", "P", 0), ("ElementLineP1", "P", 1), ("ElementLineP2", "P", 2)],
    "tri": [("ElementTriP0", "P", 0), ("ElementTriP1", "P", 1), ("ElementTriP2", "P", 2), ("ElementTriP3", "P", 3),
            ("ElementTriP4", "P", 4)],
    "tet": [("ElementTetP0", "P", 0), ("ElementTetP1", "P", 1), ("ElementTetP2", "P", 2)],
    "quad": [("ElementQuad0", "Q", 0), ("ElementQuad1", "Q", 1), ("ElementQuad2", "Q", 2)],
    "hex": [("ElementHex0", "Q", 0), ("ElementHex1", "Q", 1), ("ElementHex2", "Q", 2)],
}
_NODAL_CACHE = {}


def exact_nodal(name, space, kdeg):
    import skfem
    if name not in _NODAL_CACHE:
        e = getattr(skfem, name)()
        nodes = [[Fraction(float(x)).limit_denominator(64) for x in row] for row in np.asarray(e.doflocs)]
        _NODAL_CACHE[name] = (X_nodal(nodes, space, kdeg), nodes)
    return _NODAL_CACHE[name]


def X_nodal(nodes, space, kdeg):
    return LAG.exact_nodal_coeffs(nodes, space, kdeg)


def affine_mesh(ctx, rng, kind, k):
    if kind == "quad":
        mc = G.quad_mesh(rng, style=str(rng.choice(["tensor", "sheared"])), n=(2, 2))
    elif kind == "hex":
        mc = G.hex_mesh(rng, style=str(rng.choice(["tensor", "parallelepiped"])))
    elif kind == "tri":
        mc = G.tri_mesh(rng, n=int(rng.integers(5, 9)))
    else:
        mc = G.first_order(rng, kind)
    mesh = mc.mesh
    cap = ctx.scale(8, 16) if kind in ("tet", "hex") else ctx.scale(12, 30)
    if mesh.t.shape[1] > cap:
        S = np.sort(rng.choice(mesh.t.shape[1], size=cap, replace=False))
        p, t = G.clean(np.asarray(mesh.p), np.asarray(mesh.t)[:, S].astype(np.int64))
        mc = G.MeshCase(type(mesh)(p, t), kind, 1, dict(mc.desc, restricted=True))
    if k % 4 == 1 and kind != "line":
        p = np.array(mc.mesh.p)
        p[0] = -p[0]
        mc = G.MeshCase(type(mc.mesh)(p, np.array(mc.mesh.t)), kind, 1, dict(mc.desc, mirrored=True))
        ctx.reached("negative-det-cells")
    return input_variant(ctx, rng, mc)


def local_matrices(ctx, k, kind):
    import skfem
    from skfem.helpers import dot, grad
    rng = ctx.rng()
    mc = affine_mesh(ctx, rng, kind, k)
    mesh = mc.mesh
    d = mc.dim
    name, space, kdeg = LAGRANGE[kind][k % len(LAGRANGE[kind])]
    polys, nodes = exact_nodal(name, space, kdeg)
    elem = getattr(skfem, name)
    basis = skfem.CellBasis(mesh, elem())
    N = basis.N
    nloc = len(polys)
    # load polynomial of degree <= kdeg (default order 2*maxdeg integrates f*phi of degree <= 2*kdeg exactly on affine cells)
    fexp = rand_exps(rng, d, kdeg, 1)[0]
    fpoly = monomial_poly(fexp)
    M = [[Fraction(0)] * N for _ in range(N)]
    K = [[Fraction(0)] * N for _ in range(N)]
    b = [Fraction(0)] * N
    DL = np.asarray(basis.doflocs)
    tol = 1e-9 * (float(np.abs(mesh.p).max()) + 1)
    meas = Fraction(0)
    for c in range(mesh.t.shape[1]):
        verts = cell_verts(mesh, kind, c)
        mp, ref = X.cell_map(kind, verts)
        jd = X.jacobian_det(mp)
        if X.pdeg(jd) > 0:
            raise Skip("cell-not-affine")
        det = X.peval(jd, (0,) * d)
        adet = abs(det)
        meas += adet * X.int_ref(X.pconst(1, d), ref)
        # exact inverse Jacobian (constant)
        J = [[X.peval(X.pdiff(mp[r], cc), (0,) * d) for cc in range(d)] for r in range(d)]
        invJ = _inv(J)
        # local -> global by DOF location
        g = []
        for nd in nodes:
            xloc = np.array([float(X.peval(mp[r], nd)) for r in range(d)])
            hit = np.nonzero(np.abs(DL - xloc[:, None]).max(axis=0) < tol)[0]
            if hit.size != 1:
                raise Skip("dof-location-ambiguous")
            g.append(int(hit[0]))
        fpb = X.pcompose(fpoly, mp, d)
        grads = [[None] * d for _ in range(nloc)]
        for i in range(nloc):
            dref = [X.pdiff(polys[i], m) for m in range(d)]
            for kk in range(d):
                acc = {}
                for m in range(d):
                    acc = X.padd(acc, X.pscale(dref[m], invJ[m][kk]))
                grads[i][kk] = acc
        for i in range(nloc):
            b[g[i]] += adet * X.int_ref(X.pmul(fpb, polys[i]), ref)
            for j in range(i, nloc):
                m_ij = adet * X.int_ref(X.pmul(polys[i], polys[j]), ref)
                k_ij = Fraction(0)
                for kk in range(d):
                    k_ij += X.int_ref(X.pmul(grads[i][kk], grads[j][kk]), ref)
                k_ij *= adet
                M[g[i]][g[j]] += m_ij
                K[g[i]][g[j]] += k_ij
                if i != j:
                    M[g[j]][g[i]] += m_ij
                    K[g[j]][g[i]] += k_ij
    Mx = np.array([[float(x) for x in row] for row in M])
    Kx = np.array([[float(x) for x in row] for row in K])
    bx = np.array([float(x) for x in b])
    Mh = skfem.BilinearForm(lambda u, v, w: u * v).assemble(basis).toarray()
    tag = dict(elem=name, kind=kind, desc=mc.desc, N=int(N))
    ctx.close("mass-matrix-exact", Mh, Mx, rtol=1e-11, scale=float(np.abs(Mx).max()), mech=f"mass:{name}", **tag)
    if kdeg >= 1:
        Kh = skfem.BilinearForm(lambda u, v, w: dot(grad(u), grad(v))).assemble(basis).toarray()
        ctx.close("stiffness-matrix-exact", Kh, Kx, rtol=1e-10, scale=float(np.abs(Kx).max()),
                  mech=f"stiffness:{name}", **tag)
    bh = skfem.LinearForm(lambda v, w: poly_fn(fexp)(w) * v).assemble(basis)
    ctx.close("load-vector-exact", bh, bx, rtol=1e-11, scale=float(np.abs(bx).max()) + 1e-300,
              mech=f"load:{name}", load=fexp, **tag)
    ctx.close("mass-sum-is-measure", Mh.sum(), float(meas), rtol=1e-12, scale=float(meas), mech=f"mass-sum:{name}", **tag)
    ctx.nontrivial(kind, name, "local-matrices", mc.desc.get("style"), bool(mc.desc.get("mirrored")))
    ctx.sample(dict(tag, load=fexp, measure=float(meas)), per_family=1)


def _inv(J):
    d = len(J)
    if d == 1:
        return [[1 / J[0][0]]]
    D = X.det(J)
    if d == 2:
        return [[J[1][1] / D, -J[0][1] / D], [-J[1][0] / D, J[0][0] / D]]
    cof = [[None] * 3 for _ in range(3)]
    for i in range(3):
        for j in range(3):
            m = [[J[r][c] for c in range(3) if c != j] for r in range(3) if r != i]
            cof[i][j] = (-1) ** (i + j) * (m[0][0] * m[1][1] - m[0][1] * m[1][0])
    return [[cof[j][i] / D for j in range(3)] for i in range(3)]


def facet_matrices(ctx, k, kind):
    """Exact facet mass matrix and facet load vector of Lagrange elements on straight edges (2-D): the trace of
    the nodal basis on an edge is the 1-D Lagrange basis on the edge's nodes, also on general convex
    quadrilaterals (an edge is parametrised affinely).  Entrywise, DOFs matched by location."""
    import skfem
    rng = ctx.rng()
    name, space, kdeg = [x for x in LAGRANGE[kind] if x[2] >= 1][k % len([x for x in LAGRANGE[kind] if x[2] >= 1])]
    if kind == "quad":
        mc = G.quad_mesh(rng, style=str(rng.choice(["distorted", "sheared", "tensor", "tri2quad"])))
    else:
        mc = G.tri_mesh(rng, n=int(rng.integers(5, 12)))
    mesh = mc.mesh
    if mesh.t.shape[1] > ctx.scale(30, 80):
        raise Skip("mesh-too-large")
    if not mc.affine_cells:
        ctx.reached("non-affine-cells")
    elem = getattr(skfem, name)
    nf = mesh.facets.shape[1]
    F = np.sort(rng.choice(nf, size=max(1, nf // 3), replace=False)).astype(np.int32)
    fexp = rand_exps(rng, 2, kdeg, 1)[0]
    fpoly = monomial_poly(fexp)
    order = 2 * kdeg + 2
    fb = skfem.FacetBasis(mesh, elem(), facets=F, intorder=order)
    # the same facets with the DEFAULT order (2 * maxdeg >= 2 * kdeg: the edge mass is still exact; the load when its degree
    # allows) and, for interior facets, through InteriorFacetBasis from either side
    fb_default = skfem.FacetBasis(mesh, elem(), facets=F)
    itf = F[np.asarray(mesh.f2t)[1, F] >= 0]
    cb = skfem.CellBasis(mesh, elem())
    DL = np.asarray(cb.doflocs)
    N = cb.N
    tol = 1e-9 * (float(np.abs(mesh.p).max()) + 1)
    M = np.zeros((N, N))
    b = np.zeros(N)
    # 1-D Lagrange basis of degree kdeg on equispaced nodes of [0, 1]
    nodes1 = [[Fraction(i, kdeg)] for i in range(kdeg + 1)]
    l1 = LAG.exact_nodal_coeffs(nodes1, "P", kdeg)
    mass1 = [[X.int_ref(X.pmul(l1[a], l1[c]), "cube") for c in range(kdeg + 1)] for a in range(kdeg + 1)]
    for f in F:
        v0, v1 = (frpoint(mesh.p[:, v]) for v in mesh.facets[:, f])
        length = float(np.sqrt(float((v1[0] - v0[0]) ** 2 + (v1[1] - v0[1]) ** 2)))
        g = []
        for nd in nodes1:
            xloc = np.array([float(v0[i] + nd[0] * (v1[i] - v0[i])) for i in range(2)])
            hit = np.nonzero(np.abs(DL - xloc[:, None]).max(axis=0) < tol)[0]
            if hit.size != 1:
                raise Skip("dof-location-ambiguous")
            g.append(int(hit[0]))
        xs = [{(0,): v0[i], (1,): v1[i] - v0[i]} for i in range(2)]
        xs = [{e: c for e, c in pp.items() if c} for pp in xs]
        fs = X.pcompose(fpoly, xs, 1)
        for a in range(kdeg + 1):
            b[g[a]] += length * float(X.int_ref(X.pmul(fs, l1[a]), "cube"))
            for c in range(kdeg + 1):
                M[g[a], g[c]] += length * float(mass1[a][c])
    Mh = skfem.BilinearForm(lambda u, v, w: u * v).assemble(fb).toarray()
    bh = skfem.LinearForm(lambda v, w: poly_fn(fexp)(w) * v).assemble(fb)
    tag = dict(elem=name, kind=kind, desc=mc.desc, facets=int(F.size))
    ctx.close("mass-matrix-exact", Mh, M, rtol=1e-11, scale=float(np.abs(M).max()), mech=f"facet-mass:{name}", **tag)
    ctx.close("load-vector-exact", bh, b, rtol=1e-11, scale=float(np.abs(b).max()) + 1e-300, mech=f"facet-load:{name}",
              load=fexp, **tag)
    Md = skfem.BilinearForm(lambda u, v, w: u * v).assemble(fb_default).toarray()
    ctx.close("mass-matrix-exact", Md, M, rtol=1e-11, scale=float(np.abs(M).max()), mech=f"facet-mass-default-order:{name}", **tag)
    if sum(fexp) + kdeg <= 2 * elem().maxdeg:
        bd = skfem.LinearForm(lambda v, w: poly_fn(fexp)(w) * v).assemble(fb_default)
        ctx.close("load-vector-exact", bd, b, rtol=1e-11, scale=float(np.abs(b).max()) + 1e-300,
                  mech=f"facet-load-default-order:{name}", load=fexp, **tag)
    ctx.reached("facet-basis-default-order")
    if itf.size:
        # restricted to the interior facets of F, from either side: the same edge integrals
        Mi = np.zeros((N, N))
        keep = set(int(f) for f in itf)
        for f in F:
            if int(f) not in keep:
                continue
            v0, v1 = (frpoint(mesh.p[:, v]) for v in mesh.facets[:, f])
            length = float(np.sqrt(float((v1[0] - v0[0]) ** 2 + (v1[1] - v0[1]) ** 2)))
            g = []
            for nd in nodes1:
                xloc = np.array([float(v0[i] + nd[0] * (v1[i] - v0[i])) for i in range(2)])
                g.append(int(np.nonzero(np.abs(DL - xloc[:, None]).max(axis=0) < tol)[0][0]))
            for a in range(kdeg + 1):
                for c in range(kdeg + 1):
                    Mi[g[a], g[c]] += length * float(mass1[a][c])
        for side in (0, 1):
            ib = skfem.InteriorFacetBasis(mesh, elem(), facets=itf.astype(np.int32), side=side)
            Mih = skfem.BilinearForm(lambda u, v, w: u * v).assemble(ib).toarray()
            ctx.close("mass-matrix-exact", Mih, Mi, rtol=1e-11, scale=float(np.abs(Mi).max()) + 1e-300,
                      mech=f"interior-facet-mass-default-order:{name}", side=side, **tag)
        ctx.reached("interior-facet-basis-default-order")
    ctx.nontrivial(kind, name, "facet-matrices", mc.desc.get("style"))


# --------------------------------------------------------------- PoU sums
def mass_sums(ctx, k, kind):
    import skfem
    rng = ctx.rng()
    recs = [r for r in EL.of_kind(kind) if r.pou == "all" and r.family == "h1" and not r.skeleton]
    rec = recs[k % len(recs)]
    mc, geom = gen_mesh(ctx, rng, kind, k)
    mesh = mc.mesh
    nt = mesh.t.shape[1]
    S = np.sort(rng.choice(nt, size=max(1, nt // 2), replace=False)).astype(np.int32)
    for which, cells, kw in (("whole", range(nt), {}), ("subset", S, {"elements": S})):
        # the mass integrand of degree 2*maxdeg incl. the Jacobian may exceed the default order on non-affine cells:
        # the partition of unity makes the *sum* the integral of 1, which needs only the Jacobian's degree
        r = exact_cells(mesh, kind, X.pconst(1, mc.dim), cells, 2 * rec.make().maxdeg)
        if r is None:
            ctx.drop("jacobian-sign-changes")
            continue
        total, scale, okdeg, neg, info = r
        if not okdeg:
            ctx.drop("pulled-back-degree-beyond-rule")
            continue
        b = skfem.CellBasis(mesh, rec.make(), **kw)
        Mh = skfem.BilinearForm(lambda u, v, w: u * v).assemble(b)
        ctx.close("mass-sum-is-measure", Mh.sum(), float(total), rtol=1e-12, scale=float(total),
                  mech=f"mass-sum:{rec.name}", elem=rec.name, domain=which, geom=geom, desc=mc.desc)
        ctx.nontrivial(kind, rec.name, "mass-sum", which, geom)


# ------------------------------------------------------------------ copies
class _quiet:
    """Silence the library's 'named boundaries invalidated' warnings (C12's subject)."""
    def __enter__(self):
        import logging
        self.lg = logging.getLogger("skfem")
        self.lvl = self.lg.level
        self.lg.setLevel(logging.ERROR)

    def __exit__(self, *a):
        self.lg.setLevel(self.lvl)


def copies(ctx, k, kind):
    """The same integral on renumbered / refined / rigidly moved copies (each also against its own exact value)."""
    import skfem
    rng = ctx.rng()
    mc, geom = gen_mesh(ctx, rng, kind, k)
    mesh = mc.mesh
    d = mc.dim
    elem = getattr(skfem, P1ELEM[kind])
    n = int(rng.integers(2, min(6, MAXORDER[kind]) + 1))
    e = rand_exps(rng, d, n - (0 if mc.affine_cells else min(n, d)), 1)[0]
    poly = monomial_poly(e)
    r = exact_cells(mesh, kind, poly, range(mesh.t.shape[1]), n)
    if r is None or not r[2]:
        raise Skip("degree-or-jacobian")
    total, scale = float(r[0]), r[1]
    base = skfem.Functional(poly_fn(e)).assemble(skfem.CellBasis(mesh, elem(), intorder=n))
    ctx.close("cell-functional-exact", base, total, rtol=1e-12, scale=scale, mech=f"cell-integral:{kind}", monomial=e)
    nv = G.NVERT[kind]
    # renumbered
    p2, t2, _ = G.renumber(rng, np.asarray(mesh.p), np.asarray(mesh.t)[:nv].astype(np.int64), kind,
                           local=(kind != "wedge"))
    m2 = type(mesh)(p2, t2)
    v2 = skfem.Functional(poly_fn(e)).assemble(skfem.CellBasis(m2, elem(), intorder=n))
    ctx.close("copies-agree", v2, total, rtol=1e-12, scale=scale, mech=f"renumbered:{kind}", monomial=e, desc=mc.desc)
    ctx.reached("renumbered-copy")
    # refined (where the class offers it)
    if kind != "wedge" and mesh.t.shape[1] <= 40:
        m3 = mesh.refined(1)
        # children of non-affine cells are different multilinear cells: recompute the exact value and degree
        r3 = exact_cells(m3, kind, poly, range(m3.t.shape[1]), n)
        if r3 is not None and r3[2]:
            v3 = skfem.Functional(poly_fn(e)).assemble(skfem.CellBasis(m3, elem(), intorder=n))
            ctx.close("copies-agree", v3, float(r3[0]), rtol=1e-12, scale=r3[1], mech=f"refined:{kind}", monomial=e)
            if mc.affine_cells or kind in ("line", "tri", "tet"):
                ctx.close("copies-agree", v3, total, rtol=1e-11, scale=scale, mech=f"refined-same-domain:{kind}",
                          monomial=e, desc=mc.desc)
            ctx.reached("refined-copy")
    # the same cells described by a straight second-order mesh (isoparametric P2/Q2 geometry): the same integral
    if kind in ("tri", "quad", "tet", "hex") and mesh.t.shape[1] <= 40:
        try:
            m5 = G.mesh_class(kind, 2).from_mesh(type(mesh)(np.asarray(mesh.p, dtype=float), np.asarray(mesh.t)[:nv].astype(np.int64)))
            v5 = skfem.Functional(poly_fn(e)).assemble(skfem.CellBasis(m5, elem(), intorder=n))
            ctx.close("copies-agree", v5, total, rtol=1e-11, scale=scale, mech=f"straight-second-order-copy:{kind}", monomial=e,
                      desc=mc.desc, order=n)
            ctx.reached("straight-second-order-copy")
        except Exception as ex:
            if "Jacobian" in str(ex):
                ctx.drop("second-order-copy:zero-jacobian")
            else:
                raise
    # rigid motion: the moved mesh against its own exact value; the measure is invariant
    R, shift = G.rigid_motion(rng, d)
    # the shift in units of the mesh (a power of two): a mesh of micrometre size moved by O(1) would be a different,
    # badly conditioned problem (coordinates known to 1e-16 absolute, cells 1e-7 wide), not the same integral
    ext = float(np.ptp(np.asarray(mesh.p), axis=1).max())
    shift = shift * 2.0 ** np.floor(np.log2(ext)) if ext > 0 else shift
    p4 = (R @ np.asarray(mesh.p)) + shift
    m4 = type(mesh)(p4, np.asarray(mesh.t)[:nv].astype(np.int64))
    r4 = exact_cells(m4, kind, poly, range(m4.t.shape[1]), n)
    if r4 is not None and r4[2]:
        v4 = skfem.Functional(poly_fn(e)).assemble(skfem.CellBasis(m4, elem(), intorder=n))
        ctx.close("copies-agree", v4, float(r4[0]), rtol=1e-12, scale=r4[1], mech=f"rigid:{kind}", monomial=e)
        one = skfem.Functional(lambda w: 1.0 + 0 * w.x[0])
        a0 = one.assemble(skfem.CellBasis(mesh, elem(), intorder=max(n, d)))
        a4 = one.assemble(skfem.CellBasis(m4, elem(), intorder=max(n, d)))
        ctx.close("copies-agree", a4, a0, rtol=1e-11, scale=abs(a0), mech=f"rigid-measure:{kind}")
        ctx.reached("rigid-motion")
        # the same motion made by the library itself (morphed with one function per coordinate, then translated): the
        # integral over the moved mesh is that of the harness' own moved copy, and the source mesh is still the source
        if mesh.t.shape[1] <= 60:
            funcs = [(lambda P, i=i: sum(float(R[i, j]) * P[j] for j in range(d))) for i in range(d)]
            m6 = mesh.morphed(*funcs).translated(tuple(float(v) for v in shift[:, 0]))
            v6 = skfem.Functional(poly_fn(e)).assemble(skfem.CellBasis(m6, elem(), intorder=n))
            ctx.close("copies-agree", v6, float(r4[0]), rtol=1e-10, scale=r4[1], mech=f"rigid-by-library:{kind}", monomial=e,
                      desc=mc.desc)
            a6 = one.assemble(skfem.CellBasis(m6, elem(), intorder=max(n, d)))
            ctx.close("copies-agree", a6, a0, rtol=1e-11, scale=abs(a0), mech=f"rigid-by-library-measure:{kind}", desc=mc.desc)
            again = skfem.Functional(poly_fn(e)).assemble(skfem.CellBasis(mesh, elem(), intorder=n))
            ctx.close("copies-agree", again, total, rtol=1e-12, scale=scale, mech=f"source-mesh-after-rigid-motion:{kind}", monomial=e)
            ctx.reached("rigid-motion-by-library")
    # tagged domains through refinement: "any tagged subdomain or any set of facets ... does not depend on refining the
    # mesh" - where the refined mesh still carries the names, the integral over the name is what it was on the parent
    if kind in ("line", "tri", "quad", "tet", "hex") and mesh.t.shape[1] <= 40:
        nt_ = mesh.t.shape[1]
        S = np.sort(rng.choice(nt_, size=max(1, nt_ // 2), replace=False)).astype(np.int32)
        bfac = np.asarray(mesh.boundary_facets())
        A = np.sort(rng.choice(bfac, size=max(1, bfac.size // 2), replace=False)).astype(np.int32)
        rs = exact_cells(mesh, kind, poly, S, n)
        tagged = type(mesh)(np.asarray(mesh.p, dtype=float).copy(), np.asarray(mesh.t)[:nv].astype(np.int64))
        tagged = tagged.with_subdomains({"s": S}).with_boundaries({"a": A})
        with _quiet():
            m7 = tagged.refined(1)
        if rs is not None and rs[2] and m7.subdomains is not None and "s" in m7.subdomains:
            v7 = skfem.Functional(poly_fn(e)).assemble(skfem.CellBasis(m7, elem(), elements="s", intorder=n))
            ctx.close("copies-agree", v7, float(rs[0]), rtol=1e-11, scale=rs[1], mech=f"tagged-subdomain-refined:{kind}", monomial=e,
                      desc=mc.desc)
            ctx.reached("tagged-subdomain-through-refinement")
        if kind != "line" and m7.boundaries is not None and "a" in m7.boundaries:
            tot, sc, ok = 0.0, 0.0, True
            for f_ in A:
                rf = facet_exact(mesh, kind, poly, int(f_), n)
                if rf is None:
                    ok = None
                    break
                tot += rf[0]
                sc += rf[1]
                ok &= rf[2]
            if ok:
                v8 = skfem.Functional(poly_fn(e)).assemble(skfem.FacetBasis(m7, elem(), facets="a", intorder=n))
                ctx.close("copies-agree", v8, tot, rtol=1e-11, scale=sc, mech=f"tagged-facets-refined:{kind}", monomial=e,
                          desc=mc.desc)
                ctx.reached("tagged-facets-through-refinement")
    if total != 0:
        ctx.nontrivial(kind, geom, n, "copies", sum(e))


def fam(fn, kind):
    return lambda ctx, k: fn(ctx, k, kind)


FAMILIES = []
for kd, q, th in (("line", 6, 120), ("tri", 10, 300), ("quad", 10, 300), ("tet", 6, 160), ("hex", 6, 120), ("wedge", 4, 80)):
    FAMILIES.append(Family("cells-" + kd, fam(cell_functionals, kd), q, th))
    FAMILIES.append(Family("copies-" + kd, fam(copies, kd), max(3, q // 2), th // 2))
    FAMILIES.append(Family("mass-sum-" + kd, fam(mass_sums, kd), max(3, q // 2), th // 2))
for kd, q, th in (("line", 4, 80), ("tri", 8, 240), ("quad", 8, 240), ("tet", 6, 120), ("hex", 6, 120)):
    FAMILIES.append(Family("facets-" + kd, fam(facet_functionals, kd), q, th))
for kd, q, th in (("tri", 8, 160), ("quad", 10, 200)):
    FAMILIES.append(Family("facet-matrices-" + kd, fam(facet_matrices, kd), q, th))
for kd, q, th in (("line", 6, 60), ("tri", 10, 150), ("quad", 6, 90), ("tet", 6, 60), ("hex", 3, 30)):
    FAMILIES.append(Family("matrices-" + kd, fam(local_matrices, kd), q, th, budget={"quick": 40, "thorough": 600}))
