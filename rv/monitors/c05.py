"""C05 Essential boundary conditions: condense, enforce, penalize, mpc, solve expansion.

Oracle: a dense linear-algebra model (numpy) of the *statement*, never of the code:
for a split (I, D) of range(n) and prescribed values x,

  condense+solve+expand  y[D] == x[D]  and  (A y - b)[I] ~ 0,
  enforce                rows D of the result are exactly diag*e_i, rhs[D] == x[D], rows I and rhs[I]
                         bit-identical to the input; with diag == 1 the solution is the one above;
                         matrix rhs: rows D of M zero, rows I untouched, finite eigenvalues of the
                         enforced pencil == eigenvalues of the condensed pencil,
  penalize               nothing but the constrained diagonal / rhs entries changes; the solution of whatever
                         system is returned satisfies |y_pen - y| <= C/P (P = smallest penalty found on the
                         constrained diagonal, C from the dense model); matrix rhs: the bounded eigenvalues of
                         the penalised pencil == eigenvalues of the condensed pencil (within a P-window the
                         dense model can decide).  Whether the penalty replaces or is added to the diagonal
                         is NOT demanded, nor its value when epsilon is left to the library; an EXPLICIT epsilon
                         is the penalty parameter of the statement: the bound is then C/(1/epsilon) whatever is
                         found on the diagonal, and a penalty weaker than 1/(2 epsilon) is a violation,
  mpc                    y[S] == T y[M] + g and the original rows U and M hold (unsymmetric elimination),
  every call             argument fingerprints unchanged (A, b only when overwrite was not requested);
                         a second pass with read-only buffers must give the same result.

Matrix entries, right-hand sides and prescribed values are dyadic rationals (k/8), so every
product/sum the library has to form is exact in binary64: the structural clauses are compared
bit for bit without prescribing an evaluation order.

Oracle pitfalls recorded while building this (library right, first draft wrong):
 * `enforce` promises "same solution" only for diag == 1; with another diag the statement fixes the
   rows (diag*e_i) and the rhs (x_i) and only that is checked.
 * `mpc` is the documented unsymmetric elimination: rows S of the original system are dropped, rows
   U and M are kept with x[S] substituted; the symmetric (T^T-projected) variant is not demanded.
 * `enforce`/`penalize` may add *stored* entries (a stored 0.0 on a missing diagonal of a kept row):
   only values are compared, not sparsity patterns.
 * `condense(A, x=x, D=D)` (no b) uses b = 0, and `condense(A, D=D)` returns only (A_II, x, I).
 * the eigenproblem has no coupling to x[D]: "satisfies the kept equations" is checked with x[D] = 0
   only; with x[D] != 0 only "equal to x on D" (column-wise) is demanded.
 * the default penalty of `penalize` is 1e10 * max|diag[D]|; when every constrained diagonal entry is
   zero the penalty parameter is infinite and the statement ("agrees up to its penalty parameter")
   is vacuous: such cases are dropped and counted, not judged.
 * a DOF view denotes the set `view.flatten()` (which DOFs a view selects is property C07).
 * argument fingerprints are taken on *values*: `scipy.sparse.linalg.spsolve` canonicalises the storage of
   the matrix it is handed (sums duplicates, sorts indices) in place, so a byte-level checksum of
   data/indices/indptr of the condensed matrix changes across `solve` although no entry does.
 * eigenvalue clauses: the dense model of the *penalised* pencil loses eps*P/lambda_min(M); with an
   ill-conditioned mass matrix (ElementQuadP(5), cond 2e6) no penalty separates model rounding from penalty
   error, such cases are dropped and counted (Ref.pencil).
"""
from __future__ import annotations

import functools
import itertools
import warnings
from dataclasses import dataclass

import numpy as np
import scipy.linalg as sl
import scipy.sparse as sp

from ..engine import Family, Skip
from ..gen import elements as EL
from ..gen import meshes as G

PID = "C05"
RULE = ("random CSR systems n<=60 with dyadic entries (unsymmetric patterns, rows with no stored entries at "
        "first/middle/last position and constrained or kept, missing diagonals, explicit zeros, unsorted and "
        "duplicated column indices, int32/int64 index arrays, real/complex) and matrices assembled on a subdomain or "
        "a boundary of random meshes; splits of size 0..n given as D= or I=, as int32/int64 arrays (sorted, reversed, "
        "permuted, strided, read-only), DofsView (boundary, named, facets incl. interior, elements, keep/drop/skip) or "
        "dict of DofsView obtained from a real Basis; x None/zero/nonzero with garbage on the kept entries; b vector, "
        "None or sparse matrix; overwrite on/off; exhaustive ordered subsets x row-emptiness masks for n=4 (5 in "
        "thorough); degenerate DOF collections (empty views, one-entry / empty-view dictionaries, FacetBasis views); "
        "matrix right-hand sides in CSC/DIA/LIL/COO/BSR; float32/complex64 and integer systems; n~70000 tridiagonal "
        "systems judged with sparse algebra; mpc corners (no constraint, masters only, complex g/T, dense T).  "
        "distinct key = (operation, constrained row without stored entries, rhs kind, spelling, overwrite); "
        "non-trivial iff 0 < |D| < n and A[I][:, D] != 0")
TRACK = ["skfem.utils:_init_bc", "skfem.utils:_flatten_dofs", "skfem.utils:enforce", "skfem.utils:penalize",
         "skfem.utils:condense", "skfem.utils:mpc", "skfem.utils:solve", "skfem.utils:solve_linear",
         "skfem.utils:solve_eigen"]
REQUIRED_MONITORS = [
    "condense-index-set", "condense-matrix", "condense-rhs", "condense-matrix-rhs-reduced",
    "expanded-equals-x-on-constrained", "expanded-satisfies-kept-equations", "expansion-places-solution-at-returned-I",
    "eigen-expanded-equals-x-on-constrained", "eigen-expanded-satisfies-kept-equations",
    "enforce-constrained-rows-exact", "enforce-kept-rows-untouched", "enforce-rhs-exact",
    "enforce-same-solution", "enforce-same-solution-as-condense", "enforce-mass-rows",
    "enforce-pencil-eigenvalues",
    "penalize-only-constrained-entries-change", "penalize-agrees-up-to-epsilon", "penalize-pencil-eigenvalues",
    "penalize-epsilon-honoured",
    "mpc-index-layout", "mpc-reduced-system", "mpc-constraint", "mpc-kept-equations",
    "spellings-agree", "view-spelling-equals-array-spelling",
    "no-argument-modified", "readonly-pass-agrees", "overwrite-result-correct",
]
REQUIRED_REACH = [
    "enforce:constrained-row-without-entries:matrix-row-first",
    "enforce:constrained-row-without-entries:matrix-row-middle",
    "enforce:constrained-row-without-entries:matrix-row-last",
    "enforce:constrained-row-without-entries:D-order-first",
    "enforce:constrained-row-without-entries:D-order-middle",
    "enforce:constrained-row-without-entries:D-order-last",
    "enforce:mass-matrix-recursion",
    "collection:ndarray-int32", "collection:ndarray-int64", "collection:DofsView", "collection:dict-of-DofsView",
    "collection:dict-from-get_dofs(dict)",
    "split-given-as:I", "split-given-as:D",
    "matrix:assembled-on-subdomain", "matrix:assembled-on-boundary",
    "overwrite:on", "overwrite:off", "readonly-pass", "unsymmetric-pencil",
    "solve:eigen-default-arpack", "solve:linear-default",
    "penalize:explicit-epsilon-held-to-its-value",
    "expansion:stub-solver:ill-conditioned-kept-block", "expansion:stub-solver:matrix-rhs",
    "expansion:stub-solver:vector-rhs",
    "matrix-rhs-format:A-csr/M-csc", "matrix-rhs-format:A-csr/M-dia", "matrix-rhs-format:A-csr/M-lil",
    "matrix-rhs-format:A-csr/M-coo", "matrix-rhs-format:A-csc/M-csr",
    "format-accepted:matrix-rhs:enforce", "format-accepted:matrix-rhs:enforce-overwrite",
    "format-accepted:matrix-rhs:penalize", "format-accepted:matrix-rhs:condense",
    "matrix-dtype:float32", "matrix-dtype:complex64", "matrix-dtype:int64", "matrix-dtype:int32",
    "mpc:corner:no-constraint", "mpc:corner:S-empty-M-given", "mpc:corner:complex-g", "mpc:corner:complex-T",
    "mpc:corner:dense-T",
    "large-system:n>65535",
    "collection:degenerate:empty-DofsView", "collection:degenerate:dict-with-empty-view",
    "collection:degenerate:dict-one-entry", "collection:degenerate:view-restricted-to-nothing",
    "collection:degenerate:FacetBasis.get_dofs",
    "collection:degenerate:denotes-nothing:given-as-D", "collection:degenerate:denotes-nothing:given-as-I",
]
ASSUMPTIONS = [
    "a DOF view denotes the index set view.flatten(); which DOFs a view selects is judged by C07, not here",
    "scipy.sparse `toarray()` and numpy.linalg (solve, cond, eigh) / scipy.linalg.eig are trusted as the dense model",
    "solution clauses are evaluated only when cond(A_II) <= 1e8 (others are dropped and counted); structural "
    "clauses are evaluated for every system",
    "sparse formats other than CSR may be rejected with an exception (counted as tolerated); a format that is "
    "accepted must give the right answer",
    "the condensed system is compared with the one the docstring of condense defines (A_II, b_I - A_ID x_D) in the "
    "ordering of I that condense returns",
    "eigenvalue clauses are evaluated for symmetric A and symmetric positive definite M only, and for the penalised "
    "pencil only when the penalty lies in the window the dense model can decide (otherwise dropped and counted)",
    "index arrays that list a constrained index more than once denote the same set (family repeated-index)",
    "an explicit epsilon is the penalty parameter of the statement: the error bound is taken with 1/epsilon and a "
    "penalty weaker than 1/(2 epsilon) on a constrained diagonal entry is a violation; a stronger one is not judged",
    "single-precision data: solution clauses are judged with 1e-5 (x cond); integer matrices: structural clauses and "
    "the expansion only (no solution clause, no penalize, integer diag)",
    "the expansion performed by solve() is judged with a stub solver that returns a marker, also when A_II is singular",
]

CONDMAX = 1e8
A2 = "enforce-row-zeroing-index-arithmetic-breaks-on-constrained-row-without-stored-entries"
CSC = "enforce-zeroes-columns-of-csc-input"
CAST_SOLVE = "solve-expansion-squeezes-solution-into-dtype-of-x"
CAST_RHS = "enforce-rhs-squeezes-x-into-dtype-of-b"
REPEAT = "condense-counts-repeated-constrained-index-twice"


# ------------------------------------------------------------------ plumbing
def silenced(fn):
    @functools.wraps(fn)
    def wrapper(ctx, k):
        with warnings.catch_warnings():
            warnings.simplefilter("ignore")
            with np.errstate(all="ignore"):
                return fn(ctx, k)
    return wrapper


def fp(o):
    """Fingerprint (content checksum) of an argument.  Sparse matrices are fingerprinted by *value*
    (format, shape, dtype, dense bytes): SciPy itself canonicalises the storage of a matrix it is handed
    (`spsolve` sums duplicates and sorts indices in place), which changes no entry of the matrix and is
    not what the property forbids.  A change of representation alone is counted by `Watch.repr_changed`."""
    if o is None:
        return None
    if sp.issparse(o):
        return (o.format, o.shape, str(o.dtype), np.asarray(o.toarray()).tobytes())
    if isinstance(o, np.ndarray):
        return (o.shape, str(o.dtype), o.tobytes())
    if isinstance(o, dict):
        return tuple((k, fp(v)) for k, v in sorted(o.items()))
    if type(o).__name__ == "DofsView":
        parts = [fp(np.asarray(o.flatten()))]
        for nm in ("nodal_ix", "facet_ix", "edge_ix", "interior_ix", "nodal_rows", "facet_rows", "edge_rows",
                   "interior_rows"):
            v = o.__dict__.get(nm)
            parts.append(fp(v) if isinstance(v, np.ndarray) else repr(v))
        return tuple(parts)
    return repr(o)


def fp_repr(o):
    if sp.issparse(o) and o.format in ("csr", "csc"):
        return (o.data.tobytes(), o.indices.tobytes(), o.indptr.tobytes())
    return None


class Watch:
    def __init__(self, **objs):
        self.objs = objs
        self.before = {k: fp(v) for k, v in objs.items()}
        self.before_repr = {k: fp_repr(v) for k, v in objs.items()}

    def repr_changed(self):
        return [k for k, v in self.objs.items() if fp_repr(v) != self.before_repr[k]]

    def changed(self, ignore=()):
        return [k for k, v in self.objs.items() if k not in ignore and fp(v) != self.before[k]]


def dy(rng, size, den=8, lim=24, nonzero=True):
    v = rng.integers(-lim, lim + 1, size=size)
    if nonzero:
        v = np.where(v == 0, 1, v)
    return v / den


def same(a, b):
    """Value identity (bitwise up to the sign of zero), shapes included."""
    a, b = np.asarray(a), np.asarray(b)
    return a.shape == b.shape and bool(np.array_equal(a, b))


# ------------------------------------------------------------ the workload zoo
def gen_matrix(rng, n, *, cplx=False, symmetric=False, positive=False, empty=(), nodiag=(), zeros_frac=0.0,
               layout="canonical", index_dtype=np.int32, density=None):
    """Random n x n CSR matrix with dyadic entries, strictly diagonally dominant on the rows that
    keep their diagonal (so every principal submatrix over such rows is nonsingular)."""
    if density is None:
        density = float(rng.choice([1.5 / n, 3.0 / n, 0.3, 0.6]))
    mask = rng.random((n, n)) < density
    V = dy(rng, (n, n))
    if cplx:
        V = V + 1j * dy(rng, (n, n))
    if symmetric:
        mask = np.triu(mask, 1)
        mask = mask | mask.T
        V = np.triu(V, 1)
        V = V + V.T
    np.fill_diagonal(mask, False)
    off = np.where(mask, V, 0)
    mag = np.abs(off.real).sum(1) + np.abs(off.imag).sum(1)
    if symmetric:
        mag = np.maximum(mag, (np.abs(off.real).sum(0) + np.abs(off.imag).sum(0)))
    d = mag + rng.integers(4, 25, size=n) / 8
    if not positive:
        d = d * rng.choice([1.0, -1.0], size=n)
    d = d.astype(V.dtype)
    if cplx:
        d = d + 1j * dy(rng, n)
    stored = mask.copy()
    np.fill_diagonal(stored, True)
    val = off + np.diag(d)
    for i in nodiag:
        stored[i, i] = False
        val[i, i] = 0
    for i in empty:
        stored[i, :] = False
        val[i, :] = 0
        if symmetric:
            stored[:, i] = False
            val[:, i] = 0
    if zeros_frac > 0:
        # explicit zeros: stored entries whose value is 0.0, at positions where nothing was stored
        # (rows that are meant to store nothing stay that way)
        cand = (~stored) & (rng.random((n, n)) < zeros_frac)
        for i in empty:
            cand[i, :] = False
        if symmetric:
            cand = cand & cand.T
        for i in nodiag:
            cand[i, i] = False
        stored = stored | cand
    rows, cols = np.nonzero(stored)
    vals = val[rows, cols]
    # assemble the three CSR arrays by hand so that nothing is canonicalised behind our back
    indptr = np.zeros(n + 1, dtype=np.int64)
    data, indices = [], []
    for i in range(n):
        sel = rows == i
        c, v = cols[sel], vals[sel]
        if layout in ("unsorted", "duplicates") and c.size > 1:
            pm = rng.permutation(c.size)
            c, v = c[pm], v[pm]
        if layout == "duplicates" and c.size:
            # split some entries into two stored entries with the same column (sum is exact)
            pick = rng.random(c.size) < 0.4
            extra_c = c[pick]
            part = dy(rng, int(pick.sum())).astype(v.dtype)
            v = v.copy()
            v[pick] = v[pick] - part
            c = np.concatenate([c, extra_c])
            v = np.concatenate([v, part])
            pm = rng.permutation(c.size)
            c, v = c[pm], v[pm]
        data.append(v)
        indices.append(c)
        indptr[i + 1] = indptr[i] + c.size
    data = np.concatenate(data) if data else np.zeros(0, dtype=V.dtype)
    indices = np.concatenate(indices) if indices else np.zeros(0, dtype=np.int64)
    A = sp.csr_matrix((data.astype(V.dtype), indices.astype(index_dtype), indptr.astype(index_dtype)), shape=(n, n))
    assert same(A.toarray(), val)
    return A


@dataclass
class Split:
    name: str            # "D" or "I": which set is handed to the library
    obj: object          # what is handed over (ndarray, DofsView, dict of DofsView)
    Dset: np.ndarray     # the constrained set, sorted, int64
    n: int
    label: str

    @property
    def kw(self):
        return {self.name: self.obj}

    @property
    def Iset(self):
        return np.setdiff1d(np.arange(self.n, dtype=np.int64), self.Dset)

    def Deff(self):
        """Order in which the constrained indices reach the row arithmetic of enforce."""
        if self.name == "D" and isinstance(self.obj, np.ndarray):
            return np.asarray(self.obj, dtype=np.int64)
        return self.Dset

    @property
    def collection(self):
        if isinstance(self.obj, np.ndarray):
            return "ndarray-" + str(self.obj.dtype)
        if isinstance(self.obj, dict):
            return "dict-of-DofsView"
        return type(self.obj).__name__

    @property
    def spelling_class(self):
        return self.name + ":" + (self.collection if not isinstance(self.obj, np.ndarray) else "ndarray")


ARRAY_STYLES = [("int64", "sorted", "plain"), ("int32", "perm", "plain"), ("int64", "reversed", "plain"),
                ("int32", "sorted", "strided"), ("int64", "perm", "readonly"), ("int32", "reversed", "readonly"),
                ("int32", "sorted", "plain"), ("int64", "perm", "strided")]


def spell_array(rng, idx_sorted, style):
    dtype, order, lay = style
    a = np.asarray(idx_sorted).astype(dtype)
    if order == "reversed":
        a = a[::-1].copy()
    elif order == "perm":
        a = a[rng.permutation(a.size)]
    if lay == "strided":
        big = np.full(2 * a.size + 1, -7, dtype=dtype)
        big[1::2] = a
        a = big[1::2]
        assert a.size == 0 or not a.flags.c_contiguous or a.size == 1
    elif lay == "readonly":
        a = a.copy()
        a.flags.writeable = False
    return a


def array_split(rng, n, Dset, name, style):
    Dset = np.asarray(Dset, dtype=np.int64)
    given = Dset if name == "D" else np.setdiff1d(np.arange(n, dtype=np.int64), Dset)
    return Split(name, spell_array(rng, given, style), Dset, n, f"{name}:{'/'.join(style)}")


class Ref:
    """Dense model of one system and one split."""

    def __init__(self, A, b, x, Dset, sym=False):
        n = A.shape[0]
        self.n = n
        self.sym = sym   # A symmetric and M symmetric positive definite (eigenvalue clauses are well posed)
        # single-precision / integer data: the model itself always works in binary64 (the conversion is exact),
        # the library may work in the precision of its arguments: solution clauses are loosened to 1e-5 (times
        # the condition number where the clause is an error and not a residual), structural clauses stay bitwise
        dts = [np.dtype(o.dtype) for o in (A, b, x) if o is not None]
        self.single = any((d.kind == "f" and d.itemsize < 8) or (d.kind == "c" and d.itemsize < 16) for d in dts)
        self.integer = np.dtype(A.dtype).kind in "iub"
        self.rt_sol, self.rt_res, self.rt_pen = (1e-5, 1e-5, 1e-5) if self.single else (1e-11, 1e-9, 1e-10)
        up = (lambda a: a.astype(np.result_type(a.dtype, np.float64))) if (self.single or self.integer) else (lambda a: a)
        self.Ad = up(np.asarray(A.toarray()))
        self.D = np.asarray(Dset, dtype=np.int64)
        self.I = np.setdiff1d(np.arange(n, dtype=np.int64), self.D)
        self.xfull = up(np.zeros(n, dtype=A.dtype) if x is None else np.asarray(x))
        self.Md = None
        if b is None:
            self.b = None if x is None else up(np.zeros_like(np.asarray(x)))
        elif sp.issparse(b):
            self.b = None
            self.Md = up(np.asarray(b.toarray()))
        else:
            self.b = up(np.asarray(b))
        I, D = self.I, self.D
        self.AII = self.Ad[np.ix_(I, I)]
        self.AID = self.Ad[np.ix_(I, D)]
        self.coupled = bool(self.AID.any())
        if I.size == 0:
            self.cond = 1.0
        else:
            try:
                self.cond = float(np.linalg.cond(self.AII))
            except Exception:
                self.cond = np.inf
            if not np.isfinite(self.cond):
                self.cond = np.inf
        if self.integer:
            self.cond = np.inf      # integer matrices: no solution clause is judged (no integer solver kernels)
        self.y = None
        if self.b is not None and self.cond <= CONDMAX:
            rhs = self.b[I] - self.AID @ self.xfull[D]
            yI = np.linalg.solve(self.AII, rhs) if I.size else rhs
            y = np.array(self.xfull, dtype=np.result_type(self.xfull.dtype, yI.dtype, np.float64))
            y[I] = yI
            self.y = y
        self.amax = float(np.abs(self.Ad).max()) if self.Ad.size else 0.0

    def pencil(self):
        """Constrained eigenvalues of the symmetric-definite pencil and the accuracy the dense model itself
        can deliver for the penalised / enforced pencils (None when the clause is not decidable by it).

        Oracle pitfall (found in the thorough tier on the mass matrix of ElementQuadP(5), cond(M) = 2e6):
        the dense eigensolver applied to the *penalised* pencil loses about eps*P/lambda_min(M) in absolute
        terms, the penalty itself perturbs the bounded eigenvalues by at most about
        (|A| + lambda|M|)^2/(P*lambda_min(M)).  Only a penalty inside the window where both are below
        1e-4*max|lambda| can be judged with a 1e-3 tolerance; outside it the case is dropped and counted."""
        if hasattr(self, "_pencil"):
            return self._pencil
        self._pencil = None
        I = self.I
        if not (self.sym and I.size and self.Md is not None):
            return None
        MII = self.Md[np.ix_(I, I)]
        try:
            lam_full = float(np.linalg.eigvalsh(self.Md + self.Md.T).min()) / 2
            lamII = float(np.linalg.eigvalsh(MII + MII.T).min()) / 2
            if lamII <= 0:
                return None
            wc = np.sort(sl.eigh(self.AII, MII, eigvals_only=True))
        except Exception:
            return None
        sc = max(float(np.abs(wc).max()), 1e-300)
        nA = float(np.abs(self.Ad).sum(1).max())
        nM = float(np.abs(self.Md).sum(1).max())
        condM = nM / lamII
        lam_for_pen = lam_full if lam_full > 0 else lamII      # M may have empty constrained rows
        P_lo = (nA + sc * nM) ** 2 / (lam_for_pen * 1e-4 * sc)
        P_hi = 1e-4 * sc * lam_for_pen / 1e-15
        self._pencil = dict(wc=wc, sc=sc, condM=condM, P_lo=P_lo, P_hi=P_hi, nM=nM, spd_full=lam_full > 0)
        return self._pencil

    def residual_ok(self, y, rows, b=None):
        """(A y - b)[rows] relative to |A||y| + |b| on those rows."""
        b = self.b if b is None else b
        y = np.asarray(y)
        r = self.Ad[rows] @ y - b[rows]
        scale = (np.abs(self.Ad[rows]) @ np.abs(y)) if rows.size else np.zeros(0)
        scale = float(scale.max()) if scale.size else 0.0
        scale += float(np.abs(b[rows]).max()) if rows.size else 0.0
        err = float(np.abs(r).max()) if r.size else 0.0
        return (np.isfinite(err) and err <= self.rt_res * scale), err, scale


def a2_manifests(M, Deff):
    """Predicate of the confirmed defect A2: the row arithmetic of `enforce`
        idx[cumsum(count)[:-1]] -= count[:-1]
    needs every constrained row after the first one that stores entries to store entries too
    (a zero count repeats a cumsum position, so the earlier reset is overwritten; a trailing zero
    count indexes one past the end)."""
    if M is None or not sp.issparse(M) or M.format != "csr":
        return False
    Deff = np.asarray(Deff, dtype=np.int64)
    if Deff.size < 2:
        return False
    count = np.diff(M.indptr)[Deff]
    if count.sum() == 0:
        return True
    first = int(np.argmax(count > 0))
    return bool((count[first + 1:] == 0).any())


def empty_constrained(M, Dset):
    if M is None or not sp.issparse(M) or M.format != "csr" or len(Dset) == 0:
        return np.zeros(0, dtype=np.int64)
    cnt = np.diff(M.indptr)
    D = np.asarray(Dset, dtype=np.int64)
    return D[cnt[D] == 0]


def reach_empty_rows(ctx, A, split):
    """R: constrained row with zero stored entries, per position class."""
    n = A.shape[0]
    e = empty_constrained(A, split.Dset)
    for r in e:
        cls = "first" if r == 0 else ("last" if r == n - 1 else "middle")
        ctx.reached(f"enforce:constrained-row-without-entries:matrix-row-{cls}")
    De = split.Deff()
    if De.size and sp.issparse(A) and A.format == "csr":
        cnt = np.diff(A.indptr)[De]
        for j in np.nonzero(cnt == 0)[0]:
            cls = "first" if j == 0 else ("last" if j == De.size - 1 else "middle")
            ctx.reached(f"enforce:constrained-row-without-entries:D-order-{cls}")
    return e.size > 0


def dense_solver(A, b, **kw):
    return np.linalg.solve(np.asarray(A.toarray()), b)


def dense_eig_solver(K, M, **kw):
    Kd, Md = np.asarray(K.toarray()), np.asarray(M.toarray())
    if Kd.shape[0] == 0:
        return np.zeros(0), np.zeros((0, 0))
    if same(Kd, Kd.conj().T) and same(Md, Md.conj().T):
        try:
            return sl.eigh(Kd, Md)
        except Exception:
            pass
    return sl.eig(Kd, Md)


def nt(ctx, op, A, split, ref, rhs, overwrite):
    if 0 < split.Dset.size < ref.n and ref.coupled:
        ctx.nontrivial(op, bool(empty_constrained(A, split.Dset).size), rhs, split.spelling_class, bool(overwrite))


def note_collection(ctx, split):
    c = split.collection
    ctx.reached("collection:" + c)
    ctx.reached("split-given-as:" + split.name)


# ------------------------------------------------------------------ condense
def unpack_condensed(out, has_b, expand):
    if not has_b:
        if expand:
            Ac, xr, Ir = out
            return Ac, None, xr, Ir
        return out, None, None, None
    if expand:
        Ac, bc, xr, Ir = out
        return Ac, bc, xr, Ir
    Ac, bc = out
    return Ac, bc, None, None


def check_condense(ctx, A, b, x, split, ref, tag, expand=True, solver=None, positional=False, mechs=None):
    """Returns the expanded solution (or None)."""
    from skfem.utils import condense, solve
    mechs = mechs or {}
    mk = lambda c: mechs.get(c, mechs.get("*", "condense:" + c))
    w = Watch(A=A, b=b, x=x, idx=split.obj)
    if positional and split.name == "I":
        out = condense(A, b, x, split.obj, None, expand)
    else:
        out = condense(A, b, x=x, expand=expand, **split.kw)
    ch = w.changed()
    ctx.check("no-argument-modified", not ch, mech="argument-modified:condense", changed=ch, **tag)
    note_collection(ctx, split)
    has_b = ref.b is not None or ref.Md is not None
    arity = (2 if has_b else 1) + (2 if expand else 0)
    got_arity = len(out) if isinstance(out, tuple) else 1
    if not ctx.check("condense-return-arity", got_arity == arity, mech=mk("return-arity"), got=got_arity, want=arity,
                     **tag):
        return None
    Ac, bc, xr, Ir = unpack_condensed(out, has_b, expand)
    if Ir is None:
        Iord = split.Iset if not (split.name == "I" and isinstance(split.obj, np.ndarray)) \
            else np.asarray(split.obj, dtype=np.int64)
    else:
        Iord = np.asarray(Ir, dtype=np.int64)
        ctx.check("condense-index-set", Iord.ndim == 1 and same(np.sort(Iord), ref.I), mech=mk("index-set"),
                  returned=Iord, expected=ref.I, **tag)
        if not same(np.sort(Iord), ref.I):
            return None
    D = ref.D
    ctx.check("condense-matrix", sp.issparse(Ac) and same(Ac.toarray(), ref.Ad[np.ix_(Iord, Iord)]),
              mech=mk("matrix"), **tag)
    if ref.Md is not None:
        ctx.check("condense-matrix-rhs-reduced", sp.issparse(bc) and same(bc.toarray(), ref.Md[np.ix_(Iord, Iord)]),
                  mech=mk("matrix-rhs"), **tag)
    elif ref.b is not None:
        corr = ref.Ad[np.ix_(Iord, D)] @ ref.xfull[D]
        want = ref.b[Iord] - corr
        scale = float(np.abs(ref.b).max() if ref.b.size else 0.0) + \
            float((np.abs(ref.Ad[np.ix_(Iord, D)]) @ np.abs(ref.xfull[D])).max() if Iord.size else 0.0)
        ctx.close("condense-rhs", bc, want, rtol=1e-13, scale=scale, mech=mk("rhs"), **tag)
    if not expand and has_b and ref.cond <= CONDMAX:
        # solve without expansion data: the caller scatters the result himself
        if ref.Md is not None and ref.single:
            ctx.drop("eigen-residual-clause-skipped:single-precision-pencil")
        elif ref.Md is not None:
            L, X = solve(Ac, bc, solver=dense_eig_solver)
            Y = np.zeros((ref.n, np.asarray(X).shape[1]), dtype=np.asarray(X).dtype)
            Y[Iord] = X
            if ref.I.size:
                I = ref.I
                R = ref.Ad[I] @ Y - (ref.Md[I] @ Y) * np.asarray(L)[None, :]
                scale = (np.abs(ref.Ad[I]) @ np.abs(Y) + np.abs(ref.Md[I]) @ np.abs(Y) * np.abs(L)[None, :]).max()
                err = float(np.abs(R).max()) if R.size else 0.0
                ctx.check("eigen-expanded-satisfies-kept-equations", np.isfinite(err) and err <= 1e-8 * scale,
                          mech=mk("eigen-residual-unexpanded"), err=err, scale=float(scale), **tag)
        else:
            yI = np.asarray(solve(Ac, bc))
            y = np.array(ref.xfull, dtype=np.result_type(ref.xfull.dtype, yI.dtype))
            y[Iord] = yI
            ok, err, scale = ref.residual_ok(y, ref.I)
            ctx.check("expanded-satisfies-kept-equations", ok, mech=mk("residual-unexpanded"), err=err, scale=scale, **tag)
    if not expand or not has_b:
        return None
    illcond = not (ref.cond <= CONDMAX)
    if illcond or ref.Md is not None or (ctx.k or 0) % 4 == 0:
        # the expansion itself (values on D, position of the solution entries, arguments untouched) does not
        # depend on the conditioning of the kept block: judged with a solver that returns a marker
        check_expansion_stub(ctx, Ac, bc, xr, Ir, x, split, ref, tag, mk,
                             "ill-conditioned-kept-block" if illcond else "well-conditioned-kept-block")
    if illcond and ref.Md is None:
        ctx.drop("solution-clause-skipped:cond(A_II)>1e8")
        return None

    # ---- solve and expand
    w2 = Watch(Ac=Ac, bc=bc, xr=xr, Ir=Ir, x=x, idx=split.obj)
    if ref.Md is not None:
        L, Y = solve(Ac, bc, xr, Ir, solver=dense_eig_solver)
        ch = w2.changed()
        ctx.check("no-argument-modified", not ch, mech="argument-modified:solve", changed=ch, **tag)
        Y = np.asarray(Y)
        okshape = Y.ndim == 2 and Y.shape[0] == ref.n and Y.shape[1] == len(L)
        ctx.check("eigen-expanded-equals-x-on-constrained",
                  okshape and same(Y[D], np.tile(ref.xfull[D][:, None], (1, Y.shape[1]))),
                  mech=mk("eigen-expansion"), shape=Y.shape, **tag)
        if okshape and not ref.xfull[D].any() and ref.cond <= CONDMAX and ref.I.size and ref.single:
            ctx.drop("eigen-residual-clause-skipped:single-precision-pencil")
        elif okshape and not ref.xfull[D].any() and ref.cond <= CONDMAX and ref.I.size:
            # kept equations of the pencil: (A Y - M Y diag(L))[I] = 0
            I = ref.I
            R = ref.Ad[I] @ Y - (ref.Md[I] @ Y) * np.asarray(L)[None, :]
            scale = (np.abs(ref.Ad[I]) @ np.abs(Y) + np.abs(ref.Md[I]) @ np.abs(Y) * np.abs(L)[None, :]).max()
            err = float(np.abs(R).max()) if R.size else 0.0
            ctx.check("eigen-expanded-satisfies-kept-equations", np.isfinite(err) and err <= 1e-8 * scale,
                      mech=mk("eigen-residual"), err=err, scale=float(scale), **tag)
            nt(ctx, "condense+solve", A, split, ref, "matrix", False)
        return (L, Y)

    y = solve(Ac, bc, xr, Ir, **({"solver": solver} if solver else {}))
    if not solver:
        ctx.reached("solve:linear-default")
    ch = w2.changed()
    ctx.check("no-argument-modified", not ch, mech="argument-modified:solve", changed=ch, **tag)
    if w2.repr_changed():
        ctx.reached("note:solver-canonicalised-storage-of-condensed-matrix-in-place")
    y = np.asarray(y)
    castmech = None
    if "cast" in mechs and ref.y is not None and y.shape == ref.y.shape:
        # predicate of the dtype finding: the returned vector is the true one squeezed into a poorer dtype
        need = np.result_type(ref.y.dtype)
        if y.dtype != need and not np.can_cast(need, y.dtype, "safe"):
            if y.dtype.kind in "iu":
                squeezed = np.abs(y - ref.y).max() < 1 + 1e-9
            else:
                squeezed = np.allclose(y, ref.y.real, rtol=1e-9, atol=1e-12)
            if squeezed:
                castmech = CAST_SOLVE
    ctx.check("expanded-equals-x-on-constrained", y.shape == (ref.n,) and same(y[D], ref.xfull[D]),
              mech=mk("expansion"), got=lambda: y[D], want=lambda: ref.xfull[D], **tag)
    if y.shape != (ref.n,):
        return None
    ok, err, scale = ref.residual_ok(y, ref.I)
    ctx.check("expanded-satisfies-kept-equations", ok, mech=castmech or mk("residual"), err=err, scale=scale,
              cond_AII=ref.cond, ydtype=str(y.dtype), **tag)
    nt(ctx, "condense+solve", A, split, ref, "vector", False)
    return y


def check_expansion_stub(ctx, Ac, bc, xr, Ir, x, split, ref, tag, mk, why):
    """solve(A_c, b_c, x, I, solver=stub): the stub ignores the system and returns a marker (k/8, all entries
    distinct and non-zero), so the expanded result is decided bit for bit whatever the conditioning of A_II:
    equal to x on D, the j-th solution entry at index I[j] of the I that condense returned, nothing modified."""
    from skfem.utils import solve
    D, n = ref.D, ref.n
    Iord = np.asarray(Ir, dtype=np.int64)
    nI = int(Iord.size)
    w = Watch(Ac=Ac, bc=bc, xr=xr, Ir=Ir, x=x, idx=split.obj)
    seen = {}
    if ref.Md is not None:
        ncol = 2
        LM = np.arange(1, ncol + 1) / 4
        XM = (np.arange(1, nI * ncol + 1).reshape(nI, ncol)) / 8

        def stub(K, M, **kw):
            seen["shape"] = (K.shape, M.shape)
            return LM.copy(), XM.copy()
        L, Y = solve(Ac, bc, xr, Ir, solver=stub)
        Y = np.asarray(Y)
        ctx.reached("expansion:stub-solver:matrix-rhs")
        ok = Y.shape == (n, ncol) and same(L, LM)
        ctx.check("eigen-expanded-equals-x-on-constrained",
                  ok and same(Y[D], np.tile(ref.xfull[D][:, None], (1, ncol))), mech=mk("eigen-expansion-stub"),
                  shape=Y.shape, why=why, **tag)
        ctx.check("expansion-places-solution-at-returned-I", ok and same(Y[Iord], XM),
                  mech=mk("eigen-expansion-order-stub"), shape=Y.shape, I_returned=Iord[:40], why=why, **tag)
    else:
        marker = np.arange(1, nI + 1) / 8

        def stub(K, r, **kw):
            seen["shape"] = (K.shape, np.shape(r))
            return marker.copy()
        y = np.asarray(solve(Ac, bc, xr, Ir, solver=stub))
        ctx.reached("expansion:stub-solver:vector-rhs")
        ok = y.shape == (n,)
        ctx.check("expanded-equals-x-on-constrained", ok and same(y[D], ref.xfull[D]), mech=mk("expansion-stub"),
                  got=lambda: y[D][:12] if ok else y.shape, want=lambda: ref.xfull[D][:12], why=why, **tag)
        ctx.check("expansion-places-solution-at-returned-I", ok and same(y[Iord], marker),
                  mech=mk("expansion-order-stub"), I_returned=Iord[:40], why=why, **tag)
    ctx.reached("expansion:stub-solver:" + why)
    ctx.check("expansion-places-solution-at-returned-I", seen.get("shape") == ((nI, nI), (nI, nI) if ref.Md is not None
                                                                                 else (nI,)),
              mech=mk("solver-handed-another-system"), seen=seen.get("shape"), **tag)
    ch = w.changed()
    ctx.check("no-argument-modified", not ch, mech="argument-modified:solve(stub)", changed=ch, why=why, **tag)


# ------------------------------------------------------------------- enforce
def enforce_mechs(A, M, split, fmt="csr"):
    """Mechanism resolver for failures of enforce: the explicit predicate of A2 (on the witness)."""
    def mk(clause, which="A"):
        if fmt == "csr":
            tgt = A if which == "A" else M
            if which == "both":
                hit = a2_manifests(A, split.Deff()) or a2_manifests(M, split.Deff())
            else:
                hit = a2_manifests(tgt, split.Deff())
            if hit:
                return A2
        return "enforce:" + clause
    return mk


def finite_pencil_eigs(Kd, Md):
    """Finite generalized eigenvalues of a dense pencil (homogeneous form, scale aware)."""
    if Kd.shape[0] == 0:
        return np.zeros(0, dtype=complex)
    ab = sl.eig(Kd, Md, right=False, homogeneous_eigvals=True)
    alpha, beta = ab[0], ab[1]
    fin = np.abs(beta) > 1e-9 * (np.abs(alpha) + np.abs(beta))
    return alpha[fin] / beta[fin]


def check_enforce(ctx, A, b, x, split, ref, tag, diag=None, overwrite=False, y_condense=None, fmt="csr",
                  mech_override=None):
    from skfem.utils import enforce, solve
    M = b if sp.issparse(b) else None
    mk = enforce_mechs(A, M, split, fmt)
    if mech_override:
        base = mk
        mk = lambda clause, which="A": mech_override(clause, which) or base(clause, which)
    A_in, b_in = (A.copy(), None if b is None else b.copy()) if overwrite else (A, b)
    w = Watch(A=A_in, b=b_in, x=x, idx=split.obj)
    kw = dict(split.kw)
    if diag is not None:
        kw["diag"] = diag
    if overwrite:
        kw["overwrite"] = True
    ctx.reached("overwrite:on" if overwrite else "overwrite:off")
    reach_empty_rows(ctx, A, split)
    if M is not None:
        ctx.reached("enforce:mass-matrix-recursion")
    try:
        out = enforce(A_in, b_in, x=x, **kw)
    except IndexError as e:
        m = mk("raises", "both")
        if m != A2:
            raise
        ctx.check("enforce-constrained-rows-exact", False, mech=A2, error=repr(e), Deff=split.Deff(),
                  stored_per_row=np.diff(A.indptr)[split.Deff()], **tag)
        return None
    ch = w.changed(ignore=("A", "b") if overwrite else ())
    ctx.check("no-argument-modified", not ch, mech="argument-modified:enforce", changed=ch, overwrite=overwrite, **tag)
    note_collection(ctx, split)
    has_b = ref.b is not None or ref.Md is not None
    Ae, be = out if has_b else (out, None)
    dval = 1.0 if diag is None else diag
    D, I, n = ref.D, ref.I, ref.n
    Aed = np.asarray(Ae.toarray())
    want_rows = np.zeros((D.size, n), dtype=np.result_type(Aed.dtype, type(dval)))
    want_rows[np.arange(D.size), D] = dval
    name_rows = "overwrite-result-correct" if overwrite else "enforce-constrained-rows-exact"
    name_kept = "overwrite-result-correct" if overwrite else "enforce-kept-rows-untouched"
    okD = ctx.check(name_rows, same(Aed[D], want_rows), mech=mk("constrained-rows"),
                    got=lambda: Aed[D][:6], Deff=split.Deff(), **tag)
    okI = ctx.check(name_kept, same(Aed[I], ref.Ad[I]), mech=mk("kept-rows"),
                    rows_changed=lambda: I[np.any(Aed[I] != ref.Ad[I], axis=1)], Deff=split.Deff(), **tag)
    if overwrite:
        ctx.reached("overwrite:returned-object-is-argument" if Ae is A_in else "overwrite:returned-new-object")
    rhs_kind = "none"
    if ref.Md is not None:
        rhs_kind = "matrix"
        Med = np.asarray(be.toarray())
        ctx.check("enforce-mass-rows", same(Med[D], np.zeros((D.size, n))) and same(Med[I], ref.Md[I]),
                        mech=mk("mass-rows", "M"), Deff=split.Deff(), **tag)
        pc = ref.pencil()
        if pc is not None and pc["condM"] <= 1e9:
            wc = pc["wc"]
            we = finite_pencil_eigs(Aed, Med)
            good = we.size == wc.size
            if good:
                we = np.sort(we.real)
                # the unsymmetric dense solver (QZ) is accurate to about eps*cond(M) relative to max|lambda|
                good = bool(np.abs(we - wc).max() <= max(1e-7, 1e-12 * pc["condM"]) * pc["sc"]) if wc.size else True
            ctx.check("enforce-pencil-eigenvalues", good, mech=mk("pencil", "both"), finite=int(we.size),
                      expected=int(wc.size), condM=pc["condM"], **tag)
        elif ref.sym:
            ctx.drop("pencil-clause-skipped:dense-model-not-accurate-enough")
    elif ref.b is not None:
        rhs_kind = "vector"
        be = np.asarray(be)
        ctx.check("overwrite-result-correct" if overwrite else "enforce-rhs-exact",
                  be.shape == (n,) and same(be[D], ref.xfull[D]) and same(be[I], ref.b[I]),
                  mech="enforce:rhs",
                  got=lambda: be[:12], **tag)
        if dval == 1.0 and ref.y is not None and be.shape == (n,) and okD and okI:
            # (a result whose rows are already wrong has been recorded above; its solution is not judged again)
            ye = np.asarray(solve(Ae, be, solver=dense_solver))
            scale = max(float(np.abs(ref.y).max()) if ref.y.size else 0.0,
                        float(np.abs(ref.b).max()) / ref.amax if ref.amax else 0.0, 1e-300)
            rt = ref.rt_sol * max(1.0, ref.cond)
            ctx.close("enforce-same-solution", ye, ref.y, rtol=rt, scale=scale, mech=mk("solution"), **tag)
            if y_condense is not None:
                ctx.close("enforce-same-solution-as-condense", ye, y_condense, rtol=rt, scale=scale,
                          mech=mk("solution-vs-condense"), **tag)
        elif dval == 1.0:
            ctx.drop("solution-clause-skipped:cond(A_II)>1e8")
    nt(ctx, "enforce", A, split, ref, rhs_kind, overwrite)
    return out


# ------------------------------------------------------------------ penalize
def check_penalize(ctx, A, b, x, split, ref, tag, epsilon=None, overwrite=False):
    """The statement only says that the penalised system *agrees up to its penalty parameter*: the verdict is
    taken on the solution (vector rhs) / the bounded eigenvalues (matrix rhs) of whatever system is returned.
    The only structural demand is the one that makes it a penalty method at all: nothing but the constrained
    diagonal entries and the constrained right-hand side entries changes.  Whether the penalty replaces the
    diagonal or is added to it, and its value, are left to the library (recorded as notes)."""
    from skfem.utils import penalize
    A_in, b_in = (A.copy(), None if b is None else b.copy()) if overwrite else (A, b)
    w = Watch(A=A_in, b=b_in, x=x, idx=split.obj)
    kw = dict(split.kw)
    if epsilon is not None:
        kw["epsilon"] = epsilon
    if overwrite:
        kw["overwrite"] = True
    ctx.reached("overwrite:on" if overwrite else "overwrite:off")
    out = penalize(A_in, b_in, x=x, **kw)
    ch = w.changed(ignore=("A", "b") if overwrite else ())
    ctx.check("no-argument-modified", not ch, mech="argument-modified:penalize", changed=ch, overwrite=overwrite, **tag)
    note_collection(ctx, split)
    has_b = ref.b is not None or ref.Md is not None
    Ap, bp = out if has_b else (out, None)
    D, I, n = ref.D, ref.I, ref.n
    Apd = np.asarray(Ap.toarray())
    pen = Apd[D, D]
    mask = np.ones((n, n), dtype=bool)
    mask[D, D] = False
    name = "overwrite-result-correct" if overwrite else "penalize-only-constrained-entries-change"
    ctx.check(name, same(Apd[mask], ref.Ad[mask]), mech="penalize:touches-other-entries", **tag)
    if D.size == 0:
        return out
    P = float(np.abs(pen).min())
    degenerate_input = epsilon is None and not np.any(ref.Ad[D, D] != 0)
    if (not np.isfinite(P) or P == 0 or not np.isfinite(np.abs(pen).max())) and not degenerate_input \
            and (epsilon is None or (np.isfinite(1.0 / epsilon) and epsilon != 0)):
        # some constrained row received no (or an infinite) penalty although a finite one is defined: that row is
        # not constrained at all
        ctx.check("penalize-agrees-up-to-epsilon", False, mech="penalize:constrained-row-not-penalised",
                  penalties=[float(v) for v in np.abs(pen)[:8]], epsilon=epsilon, **tag)
        return out
    if not np.isfinite(P) or P == 0 or not np.isfinite(np.abs(pen).max()):
        # default epsilon = 1e-10 / max|diag[D]|: infinite when every constrained diagonal entry is zero
        ctx.drop("penalize:penalty-parameter-degenerate(all constrained diagonal entries are zero, epsilon=None)"
                 if epsilon is None else "penalize:penalty-parameter-degenerate(explicit epsilon)")
        ctx.reached("penalize:default-epsilon-degenerate")
        return out
    P_nom = P
    if epsilon is not None:
        ctx.reached("note:penalty-equals-1/epsilon-exactly" if same(pen, np.full(D.size, 1.0 / epsilon))
                    else "note:penalty-differs-from-1/epsilon")
        # An explicit epsilon IS the penalty parameter of the statement: every bound below is taken with the
        # nominal penalty 1/epsilon, not with whatever is found on the returned diagonal.
        P_nom = abs(1.0 / epsilon)
        check_epsilon_held(ctx, ref, pen, bp, epsilon, overwrite, tag)
    rhs_kind = "none"
    if ref.Md is not None:
        rhs_kind = "matrix"
        Mpd = np.asarray(bp.toarray())
        pc = ref.pencil()
        if pc is not None and pc["P_lo"] <= P_nom <= pc["P_hi"] and float(np.abs(pen).max()) <= pc["P_hi"]:
            # (P_nom == P unless an explicit epsilon was given: a nominal penalty inside the window is judged
            # even when the penalty actually found is weaker)
            wc, sc = pc["wc"], pc["sc"]
            wp = finite_pencil_eigs(Apd, Mpd)
            # eigenvalues that stay bounded as P grows converge to the constrained ones at rate O(1/P)
            # (the |D| penalty eigenvalues are of size P/|M|, the bounded ones at most max|lambda|)
            near = np.sort(wp[np.abs(wp) < max(2 * sc, 1e-2 * P / pc["nM"])].real)
            good = near.size == wc.size and bool(np.abs(near - wc).max() <= 1e-3 * sc)
            ctx.check("overwrite-result-correct" if overwrite else "penalize-pencil-eigenvalues", good,
                      mech="penalize:pencil", bounded=int(near.size), expected=int(wc.size), P=P,
                      window=[pc["P_lo"], pc["P_hi"]], **tag)
            if good:
                nt(ctx, "penalize", A, split, ref, rhs_kind, overwrite)
        elif ref.sym:
            ctx.drop("pencil-clause-skipped:penalty-outside-window-decidable-by-dense-model")
    elif ref.b is not None:
        rhs_kind = "vector"
        bp = np.asarray(bp)
        okb = bp.shape == (n,) and same(bp[I], ref.b[I])
        ctx.check(name, okb, mech="penalize:touches-kept-rhs", **tag)
        if ref.y is not None and okb:
            # solve the penalised system with each constrained row rescaled by its own penalty (well conditioned)
            S = Apd.astype(np.result_type(Apd.dtype, np.float64)).copy()
            r = bp.astype(np.result_type(bp.dtype, S.dtype)).copy()
            S[D] = S[D] / pen[:, None]
            r[D] = r[D] / pen
            try:
                yp = np.linalg.solve(S, r)
            except np.linalg.LinAlgError:
                ctx.drop("penalised-system-singular")
                return out
            rowsD = np.abs(ref.Ad[D]).sum(1)
            big = max(float(np.abs(yp).max()), float(np.abs(ref.xfull[D]).max()))
            delta = float(rowsD.max()) * big / P_nom      # == P unless an explicit epsilon was given
            amp = 1.0
            if I.size:
                amp = max(1.0, float(np.abs(np.linalg.solve(ref.AII, ref.AID)).sum(1).max()))
            ysc = max(float(np.abs(ref.y).max()), 1e-300)
            tol = 2 * amp * delta + ref.rt_pen * max(1.0, ref.cond) * ysc
            err = float(np.abs(yp - ref.y).max())
            ctx.check("overwrite-result-correct" if overwrite else "penalize-agrees-up-to-epsilon",
                      np.isfinite(err) and err <= tol, mech="penalize:solution", err=err, tol=tol, P=P,
                      epsilon=epsilon, **tag)
            if amp * delta <= 1e-4 * ysc:
                nt(ctx, "penalize", A, split, ref, rhs_kind, overwrite)
            else:
                ctx.reached("note:penalty-bound-not-sharp(C/P>1e-4|y|)")
    return out


def check_epsilon_held(ctx, ref, pen, bp, epsilon, overwrite, tag):
    """An explicit `epsilon` is held to its value (monitor penalize-epsilon-honoured).

    What the statement ("agrees up to its penalty parameter") demands of the returned system when the caller
    names the parameter: the penalty found on every constrained diagonal entry is not weaker than 1/epsilon
    (slack factor 2, which also leaves the library free to *replace* the diagonal by 1/epsilon or to *add*
    1/epsilon to it: |A_ii| << 1/epsilon in every workload), and the constrained right-hand side entries are the
    prescribed values times that penalty (again free to replace b_i or to add to it, to use 1/epsilon or the
    diagonal actually stored).  A penalty *stronger* than requested agrees even better and is not judged."""
    P_nom = abs(1.0 / epsilon)
    if not np.isfinite(P_nom) or P_nom == 0:
        return
    D = ref.D
    ctx.reached("penalize:explicit-epsilon-held-to-its-value")
    weak = np.abs(pen) < 0.5 * P_nom
    ctx.check("penalize-epsilon-honoured", not weak.any(), mech="penalize:penalty-weaker-than-1/epsilon",
              epsilon=epsilon, nominal=P_nom, found=lambda: [float(v) for v in np.abs(pen)[weak][:6]],
              overwrite=overwrite, **tag)
    if ref.Md is None and ref.b is not None and bp is not None:
        bpD = np.asarray(bp)[D] if np.asarray(bp).shape == (ref.n,) else None
        if bpD is None:
            return
        xD = ref.xfull[D]
        u = float(np.finfo(np.result_type(bpD.dtype, np.float32)).eps)
        # |bp_i - x_i/eps| <= |x_i||A_ii| (x_i*pen_i with the penalty added) + |b_i| (penalty added to the rhs) + ulps
        slack = np.abs(xD) * np.abs(ref.Ad[D, D]) + np.abs(ref.b[D]) + 8 * u * np.abs(xD) * P_nom
        bad = ~(np.abs(bpD - xD / epsilon) <= slack)
        ctx.check("penalize-epsilon-honoured", not bad.any(), mech="penalize:rhs-not-x-times-1/epsilon",
                  epsilon=epsilon, got=lambda: bpD[bad][:6], want=lambda: (xD / epsilon)[bad][:6],
                  overwrite=overwrite, **tag)


# ---------------------------------------------------------- read-only second pass
def readonly_copy(o):
    if o is None:
        return None
    if sp.issparse(o):
        c = o.copy()
        for nm in ("data", "indices", "indptr"):
            getattr(c, nm).flags.writeable = False
        return c
    if isinstance(o, np.ndarray):
        c = o.copy()
        c.flags.writeable = False
        return c
    return o


def dense_of(out):
    if isinstance(out, tuple):
        return tuple(dense_of(o) for o in out)
    if sp.issparse(out):
        return np.asarray(out.toarray())
    return np.asarray(out)


def readonly_pass(ctx, op, A, b, x, split, tag, first, **kw):
    """Same call with every buffer read-only: must not raise 'destination is read-only' and must
    return the same values."""
    import skfem.utils as U
    fn = getattr(U, op)
    Ar, br, xr = readonly_copy(A), readonly_copy(b), readonly_copy(x)
    obj = readonly_copy(split.obj) if isinstance(split.obj, np.ndarray) else split.obj
    ctx.reached("readonly-pass")
    try:
        out = fn(Ar, br, x=xr, **{split.name: obj}, **kw)
    except ValueError as e:
        if "read-only" in str(e):
            ctx.check("readonly-pass-agrees", False, mech="writes-into-argument:" + op, error=repr(e), **tag)
            return
        raise
    except IndexError:
        if op == "enforce" and (a2_manifests(A, split.Deff()) or a2_manifests(b if sp.issparse(b) else None,
                                                                                split.Deff())):
            return
        raise
    if first is None:
        return
    a, c = dense_of(out), dense_of(first)
    if not isinstance(a, tuple):
        a, c = (a,), (c,)
    a, c = a[:2], c[:2]
    ctx.check("readonly-pass-agrees", len(a) == len(c) and all(same(p, q) for p, q in zip(a, c)),
              mech="readonly-pass-differs:" + op, **tag)


# ---------------------------------------------------------------- all clauses
def pencil_epsilon(ref):
    pc = ref.pencil()
    if pc is None or not (pc["P_lo"] * 4 <= pc["P_hi"]):
        return 2.0 ** -int(np.round(np.log2(1e8 * max(ref.amax, 1e-300))))
    return 2.0 ** -int(np.round(0.5 * (np.log2(pc["P_lo"]) + np.log2(pc["P_hi"]))))


def run_linear_ops(ctx, A, b, x, splits, tag, rot=0, sym=False):
    """All operations of the property on one system under each of the given spellings of one split."""
    ys = []
    enf = []
    for si, split in enumerate(splits):
        ref = Ref(A, b, x, split.Dset, sym=sym)
        t = dict(tag, spelling=split.label, D=split.Dset[:40], nD=int(split.Dset.size))
        r = rot + si
        y = check_condense(ctx, A, b, x, split, ref, t, expand=True, solver=dense_solver if r % 3 == 1 else None,
                           positional=(r % 2 == 1))
        if r % 4 == 0:
            check_condense(ctx, A, b, x, split, ref, t, expand=False)
        diag = [None, 1.0, None, -2.5, None, 1.0][r % 6]
        e1 = check_enforce(ctx, A, b, x, split, ref, t, diag=diag, overwrite=False,
                           y_condense=y if isinstance(y, np.ndarray) else None)
        readonly_pass(ctx, "enforce", A, b, x, split, t, e1, **({"diag": diag} if diag is not None else {}))
        check_enforce(ctx, A, b, x, split, ref, t, diag=[None, 0.5][r % 2], overwrite=True)
        if sp.issparse(b) and ref.amax > 0:
            e0 = pencil_epsilon(ref)      # a penalty the dense pencil model can judge (see Ref.pencil)
            eps, eps2 = [e0, None, e0 / 2, e0 * 2][r % 4], [e0, e0 / 2][r % 2]
        else:
            eps, eps2 = [None, 2.0 ** -34, None, 2.0 ** -40][r % 4], [2.0 ** -36, None][r % 2]
        p1 = check_penalize(ctx, A, b, x, split, ref, t, epsilon=eps, overwrite=False)
        readonly_pass(ctx, "penalize", A, b, x, split, t, p1, **({"epsilon": eps} if eps is not None else {}))
        check_penalize(ctx, A, b, x, split, ref, t, epsilon=eps2, overwrite=True)
        from skfem.utils import condense
        readonly_pass(ctx, "condense", A, b, x, split, t, condense(A, b, x=x, **split.kw))
        ys.append((split, ref, y))
        enf.append((diag, e1))
    # spellings of the same split must agree
    if len(ys) >= 2:
        s0, r0, y0 = ys[0]
        for (s1, r1, y1) in ys[1:]:
            if isinstance(y0, np.ndarray) and isinstance(y1, np.ndarray) and r0.y is not None:
                sc = max(float(np.abs(r0.y).max()), 1e-300)
                ctx.close("spellings-agree", y1, y0, rtol=r0.rt_sol * max(1.0, r0.cond), scale=sc,
                          mech="spelling:solution", spelling_a=s0.label, spelling_b=s1.label, **tag)
        d0, e0 = enf[0]
        for (d1, e1) in enf[1:]:
            if e0 is not None and e1 is not None and d0 == d1:
                a, c = dense_of(e0), dense_of(e1)
                ctx.check("spellings-agree", all(same(p, q) for p, q in zip(a, c) if p is not None and q is not None),
                          mech="spelling:enforce", spelling_a=s0.label, **tag)
    return ys


# ------------------------------------------------------------------ families
def make_x(rng, n, Dset, kind, dtype):
    if kind == "none":
        return None
    x = np.zeros(n, dtype=dtype)
    if kind == "zero-on-D":
        # garbage on the kept entries only (initial guess): must not influence anything
        I = np.setdiff1d(np.arange(n), Dset)
        x[I] = dy(rng, I.size)
        return x
    x[:] = dy(rng, n)
    if np.dtype(dtype).kind == "c":
        x = x + 1j * dy(rng, n)
    return x


def pick_split_and_rows(rng, n, k):
    """Constrained set and rows without stored entries (position class forced by k)."""
    u = rng.random()
    if n >= 3 and u < 0.06:
        nD = 0
    elif n >= 3 and u < 0.12:
        nD = n
    else:
        nD = int(rng.integers(1, n))
    Dset = np.sort(rng.choice(n, size=nD, replace=False))
    empty, kept_empty = [], []
    mode = k % 8
    if mode < 4 and n >= 3:
        forced = {0: 0, 1: n - 1, 2: int(rng.integers(1, n - 1)), 3: int(rng.integers(0, n))}[mode]
        empty.append(forced)
        for r in rng.choice(n, size=int(rng.integers(0, 3)), replace=False):
            empty.append(int(r))
        empty = sorted(set(empty))
        if rng.random() < 0.12:
            kept_empty = [e for e in empty if e not in set(Dset.tolist())]
        else:
            Dset = np.union1d(Dset, empty)
    return Dset.astype(np.int64), empty, kept_empty


@silenced
def fam_random_linear(ctx, k):
    rng = ctx.rng()
    n = int(rng.integers(2, ctx.scale(26, 60) + 1))
    cplx = rng.random() < 0.25
    Dset, empty, kept_empty = pick_split_and_rows(rng, n, k)
    Dl = set(Dset.tolist())
    nodiag = [int(i) for i in range(n) if (i in Dl and rng.random() < 0.25) or (i not in Dl and rng.random() < 0.012)]
    layout = str(rng.choice(["canonical", "canonical", "unsorted", "duplicates"]))
    idt = np.int64 if rng.random() < 0.3 else np.int32
    A = gen_matrix(rng, n, cplx=cplx, empty=empty, nodiag=nodiag, zeros_frac=float(rng.choice([0, 0, 0.05, 0.2])),
                   layout=layout, index_dtype=idt)
    dtype = np.complex128 if cplx else np.float64
    bkind = ["vector", "vector", "vector", "none"][int(rng.integers(4))]
    xkind = ["values", "values", "none", "zero-on-D"][int(rng.integers(4))]
    b = None
    if bkind == "vector":
        b = dy(rng, n, nonzero=False).astype(dtype)
        if cplx:
            b = b + 1j * dy(rng, n)
    x = make_x(rng, n, Dset, xkind, dtype)
    sD = array_split(rng, n, Dset, "D", ARRAY_STYLES[k % len(ARRAY_STYLES)])
    sI = array_split(rng, n, Dset, "I", ARRAY_STYLES[(k // 2 + 3) % len(ARRAY_STYLES)])
    tag = dict(n=n, layout=layout, index_dtype=str(A.indices.dtype), dtype=str(A.dtype), rows_without_entries=empty,
               rhs_kind=bkind, x_kind=xkind)
    run_linear_ops(ctx, A, b, x, [sD, sI], tag, rot=k)
    ctx.sample({**tag, "D": Dset, "spellings": [sD.label, sI.label],
                "stored_per_row": np.diff(A.indptr)}, per_family=2)


@silenced
def fam_random_eigen(ctx, k):
    """Matrix right-hand sides: symmetric A, SPD M (real), so that the eigenvalue clauses are well posed."""
    rng = ctx.rng()
    n = int(rng.integers(3, ctx.scale(20, 40) + 1))
    Dset, empty, kept_empty = pick_split_and_rows(rng, n, k)
    if kept_empty:
        Dset = np.union1d(Dset, empty).astype(np.int64)
    # rows without entries: in A and M, or only in one of them
    where = ["both", "A", "M", "both"][k % 4]
    layout = str(rng.choice(["canonical", "unsorted", "duplicates"]))
    unsym = (k % 5 == 4)   # unsymmetric pencils (mass plus convection): reduction and kept equations, general dense eig
    A = gen_matrix(rng, n, symmetric=not unsym, positive=rng.random() < 0.5, empty=empty if where in ("both", "A") else (),
                   zeros_frac=float(rng.choice([0, 0.1])), layout=layout)
    M = gen_matrix(rng, n, symmetric=not unsym, positive=True, empty=empty if where in ("both", "M") else (),
                   zeros_frac=float(rng.choice([0, 0.1])), layout=str(rng.choice(["canonical", "unsorted"])))
    if unsym:
        ctx.reached("unsymmetric-pencil")
    xkind = ["none", "zero-on-D", "values"][k % 3]
    x = make_x(rng, n, Dset, xkind, np.float64)
    sD = array_split(rng, n, Dset, "D", ARRAY_STYLES[(k + 1) % len(ARRAY_STYLES)])
    sI = array_split(rng, n, Dset, "I", ARRAY_STYLES[(k // 3) % len(ARRAY_STYLES)])
    tag = dict(n=n, rhs_kind="matrix", rows_without_entries=empty, empty_in=where, x_kind=xkind, layout=layout)
    run_linear_ops(ctx, A, M, x, [sD, sI] if k % 2 else [sI, sD], dict(tag, symmetric=not unsym), rot=k, sym=not unsym)
    ctx.sample({**tag, "D": Dset}, per_family=1)


@silenced
def fam_exhaustive_small(ctx, k):
    """Every ordered subset D of range(n) x one row-emptiness mask per case (n = 4; 5 in thorough):
    the structural clauses of enforce are decided exhaustively over the order and position of
    constrained rows without stored entries."""
    rng = ctx.rng()
    n = 4 if k < 16 else 5
    maskbits = k if k < 16 else k - 16
    emptyrows = [i for i in range(n) if (maskbits >> i) & 1]
    A = gen_matrix(rng, n, empty=emptyrows, nodiag=[i for i in range(n) if rng.random() < 0.2], density=0.7,
                   zeros_frac=0.1)
    M = gen_matrix(rng, n, symmetric=False, positive=True, empty=[i for i in emptyrows if rng.random() < 0.7],
                   density=0.6)
    b = dy(rng, n)
    x = dy(rng, n)
    count = 0
    for r in range(0, n + 1):
        for comb in itertools.combinations(range(n), r):
            orders = list(itertools.permutations(comb)) if r <= 4 else [comb, comb[::-1]]
            for od in orders:
                Dset = np.array(sorted(od), dtype=np.int64)
                split = Split("D", np.array(od, dtype=np.int32 if count % 2 else np.int64), Dset, n,
                              "D:exhaustive-order")
                tag = dict(n=n, rows_without_entries=emptyrows, Dorder=list(od))
                ref = Ref(A, b, x, Dset)
                check_enforce(ctx, A, b, x, split, ref, tag)
                if count % 3 == 0:
                    refm = Ref(A, M, None, Dset)
                    check_enforce(ctx, A, M, None, split, refm, dict(tag, rhs_kind="matrix"))
                count += 1
            if r and r < n:
                splitI = Split("I", np.setdiff1d(np.arange(n), comb).astype(np.int32), np.array(comb, dtype=np.int64), n,
                               "I:exhaustive")
                ref = Ref(A, b, x, splitI.Dset)
                check_enforce(ctx, A, b, x, splitI, ref, dict(n=n, rows_without_entries=emptyrows, D=list(comb)))
    ctx.sample({"n": n, "rows_without_entries": emptyrows, "ordered_subsets": count}, per_family=1)


@silenced
def fam_directed(ctx, k):
    """Hand-written witnesses: Appendix A2 and the natural FEM situation behind it."""
    import skfem
    rng = ctx.rng()
    if k == 0:
        A = sp.csr_matrix(np.array([[2., 1, 0, 0], [0, 0, 0, 0], [1, 0, 1, 0], [0, 3, 0, 4]]))
        b = np.array([1., 2., 3., 4.])
        x = np.array([.5, -1., 2., 8.])
        for D in ([0, 1, 2], [0, 1], [1], [1, 3], [3, 1], [1, 0], [2, 1, 0]):
            split = Split("D", np.array(D, dtype=np.int64), np.array(sorted(D), dtype=np.int64), 4, "D:appendix-A2")
            ref = Ref(A, b, x, split.Dset)
            tag = dict(case="appendix-A2", D=D)
            y = check_condense(ctx, A, b, x, split, ref, tag)
            check_enforce(ctx, A, b, x, split, ref, tag, y_condense=y)
            check_penalize(ctx, A, b, x, split, ref, tag, epsilon=2.0 ** -30)
        return
    if k == 1:
        # mass matrix assembled on the left half of a mesh, right half constrained: rows of the DOFs
        # outside the closure of the subdomain store nothing (the situation of the property's "why")
        m = skfem.MeshTri.init_tensor(np.linspace(0, 1, 5), np.linspace(0, 1, 3))
        left = np.nonzero(m.p[0, m.t].mean(0) < 0.5)[0].astype(np.int32)
        basis = skfem.CellBasis(m, skfem.ElementTriP2())
        sub = skfem.CellBasis(m, skfem.ElementTriP2(), elements=left)
        A = skfem.BilinearForm(lambda u, v, w: u * v).assemble(sub)
        ctx.reached("matrix:assembled-on-subdomain")
        b = dy(rng, basis.N)
        x = dy(rng, basis.N)
        right = np.setdiff1d(np.arange(m.t.shape[1]), left).astype(np.int32)
        view = basis.get_dofs(elements=right)
        splits = [Split("D", view, np.asarray(view.flatten(), dtype=np.int64), basis.N, "D:DofsView(elements)"),
                  array_split(rng, basis.N, np.asarray(view.flatten()), "D", ("int32", "sorted", "plain"))]
        run_linear_ops(ctx, A, b, x, splits, dict(case="mass-on-left-half", n=int(basis.N)), rot=0)
        return
    if k == 2:
        # trivial splits: nothing / everything constrained; 1x1 and 2x2 systems
        for n in (1, 2, 3):
            A = gen_matrix(rng, n, density=0.9)
            b, x = dy(rng, n), dy(rng, n)
            for Dset in ([], list(range(n)), [n - 1]):
                Dset = np.array(Dset, dtype=np.int64)
                for nm in ("D", "I"):
                    split = array_split(rng, n, Dset, nm, ("int64", "sorted", "plain"))
                    run_linear_ops(ctx, A, b, x, [split], dict(case="trivial", n=n), rot=n)
        return
    if k == 3:
        # both / neither of I and D: the statement says nothing about it; executed for reach only, whatever
        # the library does is recorded, not judged
        from skfem.utils import condense, enforce, penalize
        A = gen_matrix(rng, 5)
        b = dy(rng, 5)
        for fn in (condense, enforce, penalize):
            for kw in ({}, {"I": np.array([0, 1]), "D": np.array([2, 3, 4])}):
                try:
                    fn(A, b, **kw)
                    ctx.reached("note:ambiguous-split-accepted:" + fn.__name__)
                except Exception:
                    ctx.reached("note:ambiguous-split-refused:" + fn.__name__)
        return


MPC_CORNERS = ["no-constraint", "S-empty-M-given", "complex-g", "complex-T", "dense-T", "S-empty-array-M-given"]


@silenced
def fam_mpc(ctx, k):
    from skfem.utils import mpc, solve
    rng = ctx.rng()
    n = int(rng.integers(3, ctx.scale(24, 50) + 1))
    cplx = rng.random() < 0.2
    nS = int(rng.integers(1, max(2, n // 2)))
    nM = int(rng.integers(0, max(1, min(n - nS - 1, n // 2)) + 1)) if k % 5 else 0
    # corners of the signature (every 7th case): no constraint at all, masters without slaves, complex constraint
    # data on a real system, T handed over as a dense array
    corner = MPC_CORNERS[(k // 7) % len(MPC_CORNERS)] if k % 7 == 6 else None
    if corner in ("no-constraint", "S-empty-M-given", "S-empty-array-M-given"):
        nS = 0
        nM = 0 if corner == "no-constraint" else int(rng.integers(1, max(2, n // 2)))
    elif corner:
        cplx = False
        nM = max(nM, 1)
    pm = rng.permutation(n)
    S, Mi = pm[:nS], pm[nS:nS + nM]
    empty = [int(S[0])] if (nS and rng.random() < 0.3) else []   # rows S are dropped by the elimination anyway
    A = gen_matrix(rng, n, cplx=cplx, empty=empty, layout=str(rng.choice(["canonical", "unsorted"])),
                   zeros_frac=float(rng.choice([0, 0.1])))
    dtype = np.complex128 if cplx else np.float64
    b = dy(rng, n).astype(dtype)
    Skind = ["int32", "int64"][k % 2]
    S_arg = S.astype(Skind)
    M_arg = Mi.astype(["int64", "int32"][k % 2]) if nM else None
    if k % 3 == 0:
        S_arg = spell_array(rng, np.sort(S), (Skind, "reversed", "readonly"))
        S = np.asarray(S_arg, dtype=np.int64)
    Tkind = ["random-csr", "none", "random-csc", "random-coo"][k % 4] if nM else "none"
    T = None
    if corner in ("complex-T", "dense-T"):
        Tkind = "random-csr"
    if nS == 0:
        Tkind = "none"
    if Tkind != "none":
        Tm = np.where(rng.random((nS, nM)) < 0.5, dy(rng, (nS, nM), den=16, lim=8), 0.0)
        if corner == "complex-T":
            Tm = Tm + 1j * np.where(rng.random((nS, nM)) < 0.5, dy(rng, (nS, nM), den=16, lim=8), 0.0)
        T = sp.csr_matrix(Tm).asformat(Tkind.split("-")[1])
        if corner == "dense-T":
            T, Tkind = Tm.copy(), "dense-ndarray"
    Td = (np.asarray(T.toarray() if sp.issparse(T) else T) if T is not None else np.eye(nS, nM))
    g = dy(rng, nS).astype(dtype) if k % 2 == 0 else None
    if corner == "complex-g":
        g = dy(rng, nS) + 1j * dy(rng, nS)
    if nS == 0:
        g = None
    gd = g if g is not None else np.zeros(nS)
    tag = dict(n=n, S=S, M=Mi, T=Tkind, g=g is not None, dtype=str(dtype.__name__), corner=corner)
    w = Watch(A=A, b=b, S=S_arg, M=M_arg, T=T, g=g)
    kw = {}
    if corner == "S-empty-array-M-given":
        kw["S"] = np.zeros(0, dtype=Skind)
    elif nS:
        kw["S"] = S_arg
    if M_arg is not None:
        kw["M"] = M_arg
    if T is not None:
        kw["T"] = T
    if g is not None:
        kw["g"] = g
    if corner:
        ctx.reached("mpc:corner:" + corner)
    try:
        out = mpc(A, b, **kw)
    except (TypeError, ValueError, AttributeError, NotImplementedError) as e:
        if corner != "dense-T":
            raise
        # T is documented as a sparse matrix: refusing a dense array is allowed, a wrong answer is not
        ctx.tolerated("format-rejected-with-exception")
        ctx.reached("mpc:dense-T-rejected:" + type(e).__name__)
        return
    ch = w.changed()
    ctx.check("no-argument-modified", not ch, mech="argument-modified:mpc", changed=ch, **tag)
    B, yr, x0, (perm, expand_fn) = out
    U = np.setdiff1d(np.arange(n), np.concatenate([S, Mi]))
    perm = np.asarray(perm, dtype=np.int64)
    ok_layout = same(np.sort(perm), np.arange(n)) and same(np.sort(perm[:U.size]), U) and \
        same(perm[U.size:U.size + nM], Mi.astype(np.int64)) and same(perm[U.size + nM:], S.astype(np.int64))
    ctx.check("mpc-index-layout", ok_layout, mech="mpc:layout", perm=perm, **tag)
    if not ok_layout:
        return
    Uo = perm[:U.size]
    Ad = np.asarray(A.toarray())
    Bref = np.block([[Ad[np.ix_(Uo, Uo)], Ad[np.ix_(Uo, Mi)] + Ad[np.ix_(Uo, S)] @ Td],
                     [Ad[np.ix_(Mi, Uo)], Ad[np.ix_(Mi, Mi)] + Ad[np.ix_(Mi, S)] @ Td]])
    yref = np.concatenate([b[Uo] - Ad[np.ix_(Uo, S)] @ gd, b[Mi] - Ad[np.ix_(Mi, S)] @ gd])
    sc = float(np.abs(Ad).max() * max(1.0, np.abs(Td).sum(0).max() if Td.size else 1.0))
    ctx.close("mpc-reduced-system", np.asarray(B.toarray()), Bref, rtol=1e-13, scale=sc, mech="mpc:matrix", **tag)
    ctx.close("mpc-reduced-system", yr, yref, rtol=1e-13,
              scale=float(np.abs(b).max() + (np.abs(Ad[:, S]) @ np.abs(gd)).max()), mech="mpc:rhs", **tag)
    cond = float(np.linalg.cond(Bref)) if Bref.size else 1.0
    w2 = Watch(B=B, yr=yr, x0=x0, perm=out[3][0])
    y = np.asarray(solve(*out))
    ch = w2.changed()
    ctx.check("no-argument-modified", not ch, mech="argument-modified:solve(mpc)", changed=ch, **tag)
    if y.shape != (n,) or not np.isfinite(cond) or cond > CONDMAX:
        ctx.drop("mpc:solution-clause-skipped:cond>1e8")
        return
    lhs, rhs = y[S], Td @ y[Mi] + gd
    ctx.close("mpc-constraint", lhs, rhs, rtol=1e-12,
              scale=float((np.abs(Td) @ np.abs(y[Mi])).max() + np.abs(gd).max() + np.abs(lhs).max()) if nS else 1.0,
              mech="mpc:constraint", **tag)
    rows = np.concatenate([Uo, Mi]).astype(np.int64)
    r = Ad[rows] @ y - b[rows]
    scale = float((np.abs(Ad[rows]) @ np.abs(y)).max() + np.abs(b[rows]).max()) if rows.size else 1.0
    err = float(np.abs(r).max()) if r.size else 0.0
    ctx.check("mpc-kept-equations", np.isfinite(err) and err <= 1e-9 * scale, mech="mpc:residual", err=err,
              scale=scale, cond_B=cond, **tag)
    if nS and (Ad[np.ix_(rows, S)].any() if rows.size else False):
        ctx.nontrivial("mpc", bool(empty), "vector", f"S:{Skind}/M:{'none' if M_arg is None else M_arg.dtype}/T:{Tkind}",
                       False)
    ctx.sample(dict(tag, cond_B=cond), per_family=1)


# ----------------------------------------------------- real bases: DOF views
def generic_mass(*args):
    fs = args[:-1]
    h = len(fs) // 2
    out = 0
    for i in range(h):
        pr = fs[i].value * fs[h + i].value
        while pr.ndim > 2:
            pr = pr.sum(axis=0)
        out = out + pr
    return out


FEM_KINDS = ["tri", "quad", "line", "tet", "tri", "hex", "quad", "tri", "wedge"]


def fem_setup(ctx, rng, k, extra_names=None, nmax=None):
    import skfem
    kind = FEM_KINDS[k % len(FEM_KINDS)]
    for attempt in range(6):
        mc = G.first_order(rng, kind)
        if 2 <= mc.mesh.t.shape[1] <= ctx.scale(40, 90):
            break
    else:
        raise Skip("mesh-size")
    recs = [r for r in EL.all_for_kind(kind) if r.family in ("h1", "h1vec", "composite", "hdiv", "hcurl")
            and not r.skeleton and r.mesh_req == "any"]
    if not recs:
        raise Skip("no-element")
    rec = recs[int(rng.integers(len(recs)))]
    mesh = mc.mesh
    # named boundaries (two overlapping halves of the boundary) and one subdomain
    mid = np.median(mesh.p, axis=1)
    names = {"lo": (lambda x, c=mid[0]: x[0] <= c), "hi": (lambda x, c=mid[-1]: x[-1] >= c)}
    names.update(extra_names or {})
    try:
        mesh = mesh.with_boundaries(names)
    except Exception:
        raise Skip("no-named-boundary")
    basis = skfem.CellBasis(mesh, rec.make())
    if basis.N > (nmax or ctx.scale(260, 420)) or basis.N < 4:
        raise Skip("basis-size")
    return kind, mc, rec, mesh, basis


def fem_views(rng, mesh, basis, rec):
    """A list of (label, name, collection) built from a real Basis."""
    nt_, nf = mesh.t.shape[1], mesh.facets.shape[1]
    cells = np.sort(rng.choice(nt_, size=max(1, nt_ // 2), replace=False)).astype(np.int32)
    facets = np.sort(rng.choice(nf, size=max(1, nf // 3), replace=False)).astype(np.int64)  # incl. interior facets
    V = []
    V.append(("boundary", basis.get_dofs()))
    if len(mesh.boundaries["lo"]):
        V.append(("named", basis.get_dofs("lo")))
    if len(mesh.boundaries["lo"]) and len(mesh.boundaries["hi"]):
        V.append(("set-of-names", basis.get_dofs({"lo", "hi"})))
        V.append(("dict-of-views", {"lo": basis.get_dofs("lo"), "hi": basis.get_dofs("hi")}))
        with warnings.catch_warnings():
            warnings.simplefilter("ignore")
            V.append(("dict-from-get_dofs(dict)", basis.get_dofs({"a": mesh.boundaries["lo"],
                                                                  "b": (lambda x, c=float(np.median(mesh.p[0])): x[0] >= c)})))
    V.append(("facets-array", basis.get_dofs(facets=facets)))
    V.append(("elements-array", basis.get_dofs(elements=cells)))
    V.append(("facets-predicate", basis.get_dofs(lambda x, c=float(np.median(mesh.p[0])): x[0] >= c)))
    names = list(basis.get_dofs().obj.element.dofnames) if hasattr(basis.get_dofs(), "obj") else []
    if names:
        nm = names[int(rng.integers(len(names)))]
        try:
            V.append(("keep:" + nm, basis.get_dofs().keep([nm])))
            V.append(("drop:" + nm, basis.get_dofs(elements=cells).drop([nm])))
            V.append(("skip:" + nm, basis.get_dofs(facets=facets, skip=[nm])))
        except Exception:
            pass
    V.append(("dict-mixed", {"x": basis.get_dofs(elements=cells), "y": basis.get_dofs(facets=facets)}))
    return V, cells, facets


def view_set(coll):
    if isinstance(coll, dict):
        parts = [np.asarray(v.flatten(), dtype=np.int64) for v in coll.values()]
        return np.unique(np.concatenate(parts)) if parts else np.zeros(0, dtype=np.int64)
    return np.unique(np.asarray(coll.flatten(), dtype=np.int64))


@silenced
def fam_fem_views(ctx, k):
    import skfem
    from skfem.utils import condense, enforce, penalize, solve
    rng = ctx.rng()
    kind, mc, rec, mesh, basis = fem_setup(ctx, rng, k)
    N = int(basis.N)
    V, cells, facets = fem_views(rng, mesh, basis, rec)
    form = skfem.BilinearForm(generic_mass)
    mkind = ["mass-subdomain", "mass-boundary", "mass-full", "random"][k % 4]
    coordinated = None
    if mkind == "mass-boundary" and not rec.facet_basis:
        mkind = "mass-subdomain"
    if mkind == "mass-subdomain":
        sub = skfem.CellBasis(mesh, rec.make(), elements=cells)
        A = form.assemble(sub)
        ctx.reached("matrix:assembled-on-subdomain")
        rest = np.setdiff1d(np.arange(mesh.t.shape[1]), cells).astype(np.int32)
        if rest.size:
            coordinated = ("D", "elements-complement", basis.get_dofs(elements=rest)) if k % 8 < 4 else \
                ("I", "elements-support", basis.get_dofs(elements=cells))
    elif mkind == "mass-boundary":
        fb = skfem.FacetBasis(mesh, rec.make())
        A = form.assemble(fb)
        ctx.reached("matrix:assembled-on-boundary")
        coordinated = ("I", "boundary-support", basis.get_dofs())
    elif mkind == "mass-full":
        A = form.assemble(basis)
    else:
        A = gen_matrix(rng, N, density=3.0 / N, empty=[int(i) for i in rng.choice(N, size=2, replace=False)])
    if not (sp.issparse(A) and A.format == "csr" and A.shape == (N, N)):
        raise Skip("assembly-did-not-give-csr")
    b = dy(rng, N)
    x = dy(rng, N) if k % 3 else None
    tag0 = dict(mesh=type(mesh).__name__, elem=rec.name, N=N, matrix=mkind)
    # choose spellings: the coordinated one (if any) and a rotation through the view catalogue
    chosen = []
    if coordinated:
        chosen.append(coordinated)
    for j in range(ctx.scale(2, 3)):
        lab, coll = V[(k + j * 5) % len(V)]
        chosen.append(("I" if (k + j) % 3 == 0 else "D", lab, coll))
    for name, lab, coll in chosen:
        given = view_set(coll)
        Dset = given if name == "D" else np.setdiff1d(np.arange(N, dtype=np.int64), given)
        if isinstance(coll, dict):
            ctx.reached("collection:dict-from-get_dofs(dict)" if lab.startswith("dict-from") else
                        "collection:dict-of-DofsView-literal")
        sv = Split(name, coll, Dset, N, f"{name}:{lab}")
        sa = Split(name, np.asarray(given, dtype=[np.int32, np.int64][k % 2]), Dset, N, f"{name}:array-of-same-set")
        tag = dict(tag0, view=lab)
        run_linear_ops(ctx, A, b, x, [sv, sa], tag, rot=k)
        # bit-for-bit: the view spelling and the array spelling of the same set
        for op, fn, kw in (("condense", condense, {}), ("enforce", enforce, {}), ("penalize", penalize,
                                                                                 {"epsilon": 2.0 ** -33})):
            try:
                o1 = dense_of(fn(A, b, x=x, **sv.kw, **kw))
                o2 = dense_of(fn(A, b, x=x, **sa.kw, **kw))
            except IndexError:
                if op == "enforce" and a2_manifests(A, sv.Deff()):
                    continue
                raise
            ctx.check("view-spelling-equals-array-spelling",
                      len(o1) == len(o2) and all(same(p, q) for p, q in zip(o1, o2)),
                      mech="view-vs-array:" + op, **tag)
        ctx.sample(dict(tag, split=name, nD=int(Dset.size),
                        constrained_rows_without_entries=int(empty_constrained(A, Dset).size)), per_family=2)
    # matrix right-hand side through the default (ARPACK) eigensolver, one per case when large enough
    if rec.family in ("h1", "h1vec") and mkind in ("mass-full", "mass-subdomain"):
        Mfull = form.assemble(basis)
        s = sp.diags(1.0 + rng.integers(0, 8, size=N) / 4.0)
        K = (s @ Mfull @ s).tocsr()
        name, lab, coll = chosen[-1]
        given = view_set(coll)
        Dset = given if name == "D" else np.setdiff1d(np.arange(N, dtype=np.int64), given)
        if N - Dset.size >= 12:
            sv = Split(name, coll, Dset, N, f"{name}:{lab}")
            ref = Ref(K, Mfull, None, Dset)
            ref.sym = True
            tag = dict(tag0, view=lab, rhs_kind="matrix", solver="default-arpack")
            w = Watch(K=K, M=Mfull)
            out = condense(K, Mfull, **sv.kw)
            L, Y = solve(*out, k=3, sigma=0.0)
            ctx.reached("solve:eigen-default-arpack")
            ch = w.changed()
            ctx.check("no-argument-modified", not ch, mech="argument-modified:condense+solve(eigen)", changed=ch, **tag)
            Y = np.asarray(Y)
            ctx.check("eigen-expanded-equals-x-on-constrained", Y.shape == (N, 3) and same(Y[Dset], np.zeros((Dset.size, 3))),
                      mech="condense:eigen-expansion", **tag)
            if Y.shape == (N, 3):
                I = ref.I
                R = ref.Ad[I] @ Y - (ref.Md[I] @ Y) * np.asarray(L)[None, :]
                scale = (np.abs(ref.Ad[I]) @ np.abs(Y) + np.abs(ref.Md[I]) @ np.abs(Y) * np.abs(L)[None, :]).max()
                err = float(np.abs(R).max())
                ctx.check("eigen-expanded-satisfies-kept-equations", np.isfinite(err) and err <= 1e-6 * scale,
                          mech="condense:eigen-residual-arpack", err=err, scale=float(scale), **tag)
            check_enforce(ctx, K, Mfull, None, sv, ref, tag)
            check_penalize(ctx, K, Mfull, None, sv, ref, tag, epsilon=pencil_epsilon(ref))


# ------------------------------------------------ degenerate DOF collections
@silenced
def fam_degenerate(ctx, k):
    """DOF collections at the edge of the type: a view that selects nothing (a tag without facets, keep/drop down
    to nothing, an empty facet/element array), dictionaries with one entry / with an empty view among real ones /
    with nothing but an empty view, and views obtained from a FacetBasis.  Each is handed over as D and as I; the
    oracle is the dense model of the set the collection denotes (nothing / everything constrained included) and
    the array spelling of the same set.  How such a view is *built* is not judged here (C07): a constructor that
    refuses is counted and left out."""
    import skfem
    rng = ctx.rng()
    kind, mc, rec, mesh, basis = fem_setup(ctx, rng, k, extra_names={"none": (lambda x: x[0] > 1e9)},
                                           nmax=ctx.scale(110, 200))
    if "none" not in mesh.boundaries or len(mesh.boundaries["none"]):
        raise Skip("no-empty-tag")
    N = int(basis.N)
    real = basis.get_dofs("lo") if len(mesh.boundaries["lo"]) else basis.get_dofs()
    if view_set(real).size == 0:
        real = basis.get_dofs()
    C = []

    def offer(cls, lab, make):
        try:
            C.append((cls, lab, make()))
        except Exception as e:
            ctx.drop(f"degenerate-collection-not-constructible:{lab}:{type(e).__name__}")
    empty = basis.get_dofs("none")
    offer("empty-DofsView", "tag-without-facets", lambda: empty)
    offer("dict-with-empty-view", "dict(empty,real)", lambda: {"a": empty, "b": real})
    offer("dict-with-empty-view", "dict(real,empty)", lambda: {"b": real, "a": basis.get_dofs("none")})
    offer("dict-one-entry", "dict(only=real)", lambda: {"only": real})
    offer("dict-one-entry", "dict(only=empty)", lambda: {"only": empty})
    dofnames = list(dict.fromkeys(basis.get_dofs().obj.element.dofnames)) if hasattr(empty, "obj") else []
    offer("view-restricted-to-nothing", "keep([])", lambda: basis.get_dofs().keep([]))
    if dofnames:
        offer("view-restricted-to-nothing", "drop(all)", lambda: basis.get_dofs().drop(dofnames))
        offer("view-restricted-to-nothing", "skip=all", lambda: basis.get_dofs("lo", skip=dofnames))
    offer("empty-DofsView", "facets=[]", lambda: basis.get_dofs(facets=np.zeros(0, dtype=np.int32)))
    offer("empty-DofsView", "elements=[]", lambda: basis.get_dofs(elements=np.zeros(0, dtype=np.int32)))
    if rec.facet_basis:
        offer("FacetBasis.get_dofs", "FacetBasis.get_dofs()", lambda: skfem.FacetBasis(mesh, rec.make()).get_dofs())
        offer("FacetBasis.get_dofs", "FacetBasis.get_dofs(name)",
              lambda: skfem.FacetBasis(mesh, rec.make()).get_dofs("hi" if len(mesh.boundaries["hi"]) else "lo"))
        offer("FacetBasis.get_dofs", "FacetBasis.get_dofs(empty tag)",
              lambda: skfem.FacetBasis(mesh, rec.make()).get_dofs("none"))
    form = skfem.BilinearForm(generic_mass)
    mkind = ["mass-full", "mass-boundary", "random"][k % 3]
    if mkind == "mass-boundary" and not rec.facet_basis:
        mkind = "mass-full"
    if mkind == "mass-full":
        A = form.assemble(basis)
    elif mkind == "mass-boundary":
        A = form.assemble(skfem.FacetBasis(mesh, rec.make()))
    else:
        A = gen_matrix(rng, N, density=3.0 / N, empty=[int(i) for i in rng.choice(N, size=2, replace=False)])
    if not (sp.issparse(A) and A.format == "csr" and A.shape == (N, N)):
        raise Skip("assembly-did-not-give-csr")
    b = dy(rng, N)
    x = dy(rng, N) if k % 4 else None
    tag0 = dict(mesh=type(mesh).__name__, elem=rec.name, N=N, matrix=mkind)
    for j in range(ctx.scale(3, 5)):
        cls, lab, coll = C[(k + j * 3) % len(C)]
        name = "DI"[(k + j) % 2]
        given = view_set(coll)
        Dset = given if name == "D" else np.setdiff1d(np.arange(N, dtype=np.int64), given)
        sv = Split(name, coll, Dset, N, f"{name}:{lab}")
        sa = Split(name, np.asarray(given, dtype=[np.int32, np.int64][(k + j) % 2]), Dset, N,
                   f"{name}:array-of-same-set")
        run_linear_ops(ctx, A, b, x, [sv, sa], dict(tag0, view=lab), rot=k + j)
        ctx.reached("collection:degenerate:" + cls)
        ctx.reached(f"collection:degenerate:denotes-{'nothing' if given.size == 0 else 'a-real-set'}:given-as-{name}")
        ctx.nontrivial("degenerate-collection", cls, name)
        ctx.sample(dict(tag0, collection=lab, given_as=name, denotes=int(given.size)), per_family=2)


# ------------------------------------------------------- other sparse formats
@silenced
def fam_formats(ctx, k):
    """Formats other than CSR: rejecting with an exception is tolerated, a wrong answer is not."""
    from skfem.utils import enforce
    rng = ctx.rng()
    n = int(rng.integers(4, 16))
    fmt = ["csc", "lil", "dok", "coo", "dia", "bsr"][k % 6]
    Dset = np.sort(rng.choice(n, size=int(rng.integers(1, n)), replace=False)).astype(np.int64)
    A0 = gen_matrix(rng, n, density=0.5)
    A = A0.asformat(fmt)
    b, x = dy(rng, n), dy(rng, n)
    split = array_split(rng, n, Dset, ["D", "I"][k % 2], ("int64", "sorted", "plain"))
    ref = Ref(A0, b, x, Dset)
    tag = dict(format=fmt, n=n, D=Dset)
    Ad = ref.Ad

    def csc_pred(clause, which):
        # explicit predicate: the result is the input with *columns* D zeroed and the diagonal set
        if fmt != "csc" or clause not in ("constrained-rows", "kept-rows", "solution", "solution-vs-condense"):
            return None
        model = Ad.copy()
        model[:, Dset] = 0
        model[Dset, Dset] = 1.0
        got = np.asarray(enforce(A, D=Dset).toarray())
        return CSC if same(got, model) else None

    for op in ("condense", "enforce", "penalize"):
        try:
            if op == "condense":
                check_condense(ctx, A, b, x, split, ref, tag)
            elif op == "enforce":
                check_enforce(ctx, A, b, x, split, ref, tag, fmt=fmt, mech_override=csc_pred)
            else:
                check_penalize(ctx, A, b, x, split, ref, tag, epsilon=2.0 ** -30)
            ctx.reached(f"format-accepted:{fmt}:{op}")
        except (AttributeError, TypeError, NotImplementedError, IndexError, ValueError) as e:
            ctx.tolerated("format-rejected-with-exception")
            ctx.reached(f"format-rejected:{fmt}:{op}:{type(e).__name__}")


MRHS_COMBOS = [("csr", "csc"), ("csr", "dia"), ("csr", "lil"), ("csr", "coo"), ("csc", "csr"), ("csr", "dia-lumped"),
               ("csc", "csc"), ("csr", "bsr")]


@silenced
def fam_formats_matrix_rhs(ctx, k):
    """Matrix right-hand sides that are not CSR (a lumped mass matrix from scipy.sparse.diags is DIA, an imported
    one CSC/COO, one built entry by entry LIL) next to a CSR stiffness matrix, and a CSC stiffness matrix next to a
    CSR mass matrix; overwrite off and on (it cannot be honoured for a format that has to be converted: the result
    must be right all the same).  Oracle: the dense model of the pencil and the fingerprint (format and values) of
    the arguments when overwriting was not requested.  Rejection with an exception is tolerated (condense cannot
    slice DIA/COO), a wrong answer is not."""
    rng = ctx.rng()
    fmtA, fmtM = MRHS_COMBOS[k % len(MRHS_COMBOS)]
    n = int(rng.integers(5, ctx.scale(16, 30)))
    Dset = np.sort(rng.choice(n, size=int(rng.integers(1, n - 2)), replace=False)).astype(np.int64)
    emptyrows = [int(Dset[0])] if (k // len(MRHS_COMBOS)) % 2 else []
    A0 = gen_matrix(rng, n, symmetric=True, positive=rng.random() < 0.5, density=0.4, empty=emptyrows)
    if fmtM == "dia-lumped":
        M = sp.diags(rng.integers(2, 17, size=n) / 8.0)       # what a lumped mass matrix usually is
        M0 = sp.csr_matrix(M)
    else:
        M0 = gen_matrix(rng, n, symmetric=True, positive=True, density=0.4,
                        empty=emptyrows if rng.random() < 0.5 else ())
        M = M0.asformat(fmtM)
    A = A0.asformat(fmtA)
    if not (sp.issparse(M) and isinstance(M, sp.spmatrix) and isinstance(A, sp.spmatrix)):
        raise Skip("scipy-did-not-give-an-spmatrix")
    ctx.reached(f"matrix-rhs-format:A-{fmtA}/M-{M.format}")
    x = make_x(rng, n, Dset, ["none", "zero-on-D", "values"][k % 3], np.float64)
    split = array_split(rng, n, Dset, ["D", "I"][k % 2], ARRAY_STYLES[k % len(ARRAY_STYLES)])
    ref = Ref(A0, M0, x, Dset, sym=True)
    tag = dict(n=n, format_A=fmtA, format_M=M.format, D=Dset, rows_without_entries=emptyrows, rhs_kind="matrix")
    eps = pencil_epsilon(ref)
    ops = [("condense", lambda: check_condense(ctx, A, M, x, split, ref, tag)),
           ("enforce", lambda: check_enforce(ctx, A, M, x, split, ref, tag, fmt=fmtA)),
           ("enforce-overwrite", lambda: check_enforce(ctx, A, M, x, split, ref, tag, overwrite=True, fmt=fmtA)),
           ("penalize", lambda: check_penalize(ctx, A, M, x, split, ref, tag, epsilon=eps)),
           ("penalize-overwrite", lambda: check_penalize(ctx, A, M, x, split, ref, tag, epsilon=eps, overwrite=True))]
    for op, run in ops:
        try:
            run()
            ctx.reached(f"format-accepted:matrix-rhs:{op}")
            ctx.reached(f"format-accepted:matrix-rhs:A-{fmtA}/M-{M.format}:{op}")
            ctx.nontrivial("matrix-rhs-format", fmtA, M.format, op)
        except (AttributeError, TypeError, NotImplementedError, IndexError, ValueError) as e:
            ctx.tolerated("format-rejected-with-exception")
            ctx.reached(f"format-rejected:matrix-rhs:A-{fmtA}/M-{M.format}:{op}:{type(e).__name__}")


# ----------------------------------------------------------- dtype mixtures
DT_COMBOS = [  # (A, b, x)
    ("f", "f", "c"), ("c", "f", "none"), ("c", "c", "c"), ("f", "f", "f"),      # consistent: must simply work
    ("f", "c", "none"), ("c", "c", "f"), ("f", "c", "f"), ("f", "f", "i"), ("c", "f", "f"),
]


@silenced
def fam_dtype_mix(ctx, k):
    """The right-hand side / matrix / prescribed values need not share a dtype: the expanded vector must
    still satisfy the kept equations (it cannot if it is squeezed into the dtype of x or b)."""
    rng = ctx.rng()
    if k % (len(DT_COMBOS) + 1) == len(DT_COMBOS):
        return dtype_mix_eigen(ctx, rng, k)
    ka, kb, kx = DT_COMBOS[k % (len(DT_COMBOS) + 1)]
    n = int(rng.integers(3, 14))
    Dset = np.sort(rng.choice(n, size=int(rng.integers(1, n)), replace=False)).astype(np.int64)
    A = gen_matrix(rng, n, cplx=(ka == "c"), density=0.6)
    b = dy(rng, n) + (1j * dy(rng, n) if kb == "c" else 0)
    if kx == "none":
        x = None
    elif kx == "i":
        x = rng.integers(-5, 6, size=n)
    else:
        x = dy(rng, n) + (1j * dy(rng, n) if kx == "c" else 0)
    split = array_split(rng, n, Dset, ["D", "I"][k % 2], ARRAY_STYLES[k % len(ARRAY_STYLES)])
    ref = Ref(A, b, x, Dset)
    tag = dict(n=n, A=str(A.dtype), b=str(b.dtype), x="None" if x is None else str(x.dtype), D=Dset)
    y = check_condense(ctx, A, b, x, split, ref, tag, mechs={"cast": True})
    # enforce: the returned right-hand side must hold x on D and b on I as *values*;
    # penalize: the returned system must still agree with the true solution up to the penalty parameter
    from skfem.utils import enforce, penalize
    w = Watch(A=A, b=b, x=x)
    Ae, be = enforce(A, b, x=x, **split.kw)
    ctx.check("no-argument-modified", not w.changed(), mech="argument-modified:enforce", **tag)
    be = np.asarray(be)
    need = np.result_type(b.dtype, ref.xfull.dtype)

    def m_enforce():
        lossy = be.dtype != need and not np.can_cast(need, be.dtype, "safe")
        if lossy and np.allclose(be[ref.D], ref.xfull[ref.D].real) and same(be[ref.I], b[ref.I]):
            return CAST_RHS
        return "enforce:rhs"
    ctx.check("enforce-rhs-exact", same(be[ref.D], ref.xfull[ref.D]) and same(be[ref.I], b[ref.I]), mech=m_enforce,
              got_dtype=str(be.dtype), **tag)
    P = 2.0 ** 30
    Ap, bp = penalize(A, b, x=x, epsilon=1 / P, **split.kw)
    bp = np.asarray(bp)
    S = np.asarray(Ap.toarray()).astype(complex)
    r = bp.astype(complex)
    S[ref.D] /= P
    r[ref.D] /= P
    yp = np.linalg.solve(S, r)
    err = float(np.abs(yp - ref.y).max())
    bound = 4 * max(1.0, float(np.abs(np.linalg.solve(ref.AII, ref.AID)).sum(1).max()) if ref.I.size else 1.0) * \
        float(np.abs(ref.Ad[ref.D]).sum(1).max()) * max(float(np.abs(yp).max()), float(np.abs(ref.xfull).max())) / P

    def m_pen():
        lossy = bp.dtype != need and not np.can_cast(need, bp.dtype, "safe")
        if lossy and np.allclose(bp[ref.D], (ref.xfull[ref.D] * P).real, rtol=1e-12):
            return CAST_RHS
        return "penalize:solution"
    ctx.check("penalize-agrees-up-to-epsilon", err <= bound + 1e-9 * float(np.abs(ref.y).max()), mech=m_pen, err=err,
              bound=bound, got_dtype=str(bp.dtype), **tag)
    ctx.nontrivial("dtype-mix", ka, kb, kx)
    ctx.sample(dict(tag, y_dtype=None if y is None else str(np.asarray(y).dtype)), per_family=2)


def dtype_mix_eigen(ctx, rng, k):
    """Real unsymmetric pencil: eigenvectors are complex; the expanded columns must still be eigenvectors."""
    from skfem.utils import condense, solve
    n = int(rng.integers(5, 12))
    Dset = np.sort(rng.choice(n, size=int(rng.integers(1, n - 3)), replace=False)).astype(np.int64)
    # skew part dominates: complex eigenvalues
    G_ = np.triu(dy(rng, (n, n)), 1)
    A = sp.csr_matrix(G_ - G_.T + np.diag(dy(rng, n, lim=4)))
    M = gen_matrix(rng, n, symmetric=True, positive=True, density=0.3)
    x = np.zeros(n)
    split = array_split(rng, n, Dset, ["D", "I"][k % 2], ("int64", "sorted", "plain"))
    ref = Ref(A, M, x, Dset)
    tag = dict(n=n, D=Dset, pencil="real-unsymmetric", x=str(x.dtype))
    out = condense(A, M, x=x, **split.kw)
    L, Y = solve(*out, solver=dense_eig_solver)
    Y = np.asarray(Y)
    I = ref.I
    Lr, Xr = sl.eig(ref.AII, ref.Md[np.ix_(I, I)])     # the same dense solve, outside the library
    R = ref.Ad[I] @ Y - (ref.Md[I] @ Y) * np.asarray(L)[None, :]
    scale = (np.abs(ref.Ad[I]) @ np.abs(Y) + np.abs(ref.Md[I]) @ np.abs(Y) * np.abs(L)[None, :]).max()
    err = float(np.abs(R).max())

    def m():
        if np.iscomplexobj(Xr) and not np.iscomplexobj(Y) and np.abs(Xr.imag).max() > 1e-6 and \
                Y.shape == (n, Xr.shape[1]) and np.allclose(Y[I], Xr.real, rtol=1e-9, atol=1e-12):
            return CAST_SOLVE
        return "condense:eigen-residual"
    ctx.check("eigen-expanded-equals-x-on-constrained", same(Y[Dset], np.zeros((Dset.size, Y.shape[1]))),
              mech="condense:eigen-expansion", **tag)
    ctx.check("eigen-expanded-satisfies-kept-equations", np.isfinite(err) and err <= 1e-8 * scale, mech=m, err=err,
              scale=float(scale), Y_dtype=str(Y.dtype), **tag)
    ctx.nontrivial("dtype-mix", "eigen-unsymmetric")


# ------------------------------------------- single precision and integer systems
LOWPREC = [("float32", "float32", "float32"), ("float32", "float64", "float64"), ("float32", "float32", "none"),
           ("complex64", "complex64", "complex64"), ("float64", "float32", "float32"), ("float32", "float64", "none"),
           ("int64", "float64", "float64"), ("int32", "int64", "int64"), ("int64", "float64", "none"),
           ("float32", "matrix", "none"), ("int64", "matrix", "none"), ("int32", "matrix", "float64")]


@silenced
def fam_lowprec(ctx, k):
    """float32 / complex64 systems (all entries k/8 are exact in binary32, and so is every product and sum the
    library has to form) and integer matrices (adjacency/incidence type, entries k).  Structural clauses stay
    bitwise; solution clauses are judged with 1e-5 (x cond) when any argument is single precision and not at
    all for integer matrices (enforce with an integer diag, no penalize: 1/epsilon and -2.5 do not fit the
    dtype, which is the caller's choice and not the library's fault)."""
    rng = ctx.rng()
    ka, kb, kx = LOWPREC[k % len(LOWPREC)]
    n = int(rng.integers(3, ctx.scale(22, 40) + 1))
    Dset, empty, kept_empty = pick_split_and_rows(rng, n, k // len(LOWPREC))
    integer = ka.startswith("int")
    cplx = ka.startswith("complex")
    layout = str(rng.choice(["canonical", "unsorted", "duplicates"]))
    A64 = gen_matrix(rng, n, cplx=cplx, empty=empty, layout=layout, symmetric=(kb == "matrix"),
                     zeros_frac=float(rng.choice([0, 0.1])))
    if integer:
        A = sp.csr_matrix(((A64.data * 8).astype(ka), A64.indices.copy(), A64.indptr.copy()), shape=A64.shape)
        assert same(A.toarray(), A64.toarray() * 8)
    else:
        A = sp.csr_matrix((A64.data.astype(ka), A64.indices.copy(), A64.indptr.copy()), shape=A64.shape)
        assert same(A.toarray(), A64.toarray())      # k/8 is exact in binary32
    ctx.reached("matrix-dtype:" + ka)
    if kb == "matrix":
        M64 = gen_matrix(rng, n, symmetric=True, positive=True, empty=empty if rng.random() < 0.5 else ())
        b = sp.csr_matrix(((M64.data * (8 if integer else 1)).astype(ka), M64.indices.copy(), M64.indptr.copy()),
                          shape=M64.shape)
    else:
        bv = dy(rng, n, nonzero=False) * (8 if kb.startswith("int") else 1)
        b = (bv + (1j * dy(rng, n) if kb.startswith("complex") else 0)).astype(kb)
    if kx == "none":
        x = None
    else:
        xv = dy(rng, n) * (8 if kx.startswith("int") else 1)
        x = (xv + (1j * dy(rng, n) if kx.startswith("complex") else 0)).astype(kx)
    sD = array_split(rng, n, Dset, "D", ARRAY_STYLES[k % len(ARRAY_STYLES)])
    sI = array_split(rng, n, Dset, "I", ARRAY_STYLES[(k // 2 + 3) % len(ARRAY_STYLES)])
    tag = dict(n=n, A=ka, b=kb, x=kx, layout=layout, rows_without_entries=empty)
    if not integer and kb != "matrix":
        run_linear_ops(ctx, A, b, x, [sD, sI], tag, rot=k)
        ctx.nontrivial("low-precision", ka, kb, kx)
        return
    # integer matrices and single-precision pencils: structural clauses, expansion through the stub solver,
    # arguments untouched, read-only pass; integer diag
    outs = []
    for si, split in enumerate([sD, sI]):
        ref = Ref(A, b, x, split.Dset)
        t = dict(tag, spelling=split.label, D=split.Dset[:40], nD=int(split.Dset.size))
        check_condense(ctx, A, b, x, split, ref, t, expand=True, solver=dense_solver, positional=bool(si))
        check_condense(ctx, A, b, x, split, ref, t, expand=False)
        diag = [None, 2, None, -3][(k // len(LOWPREC) + si) % 4]
        e1 = check_enforce(ctx, A, b, x, split, ref, t, diag=diag)
        readonly_pass(ctx, "enforce", A, b, x, split, t, e1, **({"diag": diag} if diag is not None else {}))
        check_enforce(ctx, A, b, x, split, ref, t, diag=[None, 4][si], overwrite=True)
        if not integer:
            check_penalize(ctx, A, b, x, split, ref, t, epsilon=2.0 ** -30)
        from skfem.utils import condense
        readonly_pass(ctx, "condense", A, b, x, split, t, condense(A, b, x=x, **split.kw))
        outs.append((diag, e1))
    ctx.nontrivial("low-precision", ka, kb, kx)
    ctx.sample(dict(tag, D=Dset), per_family=2)


# ------------------------------------------------------------- large systems
def big_fp(o):
    """Byte-level fingerprint that never densifies (large systems)."""
    if o is None:
        return None
    if sp.issparse(o):
        return (o.format, o.shape, str(o.dtype), crc_bytes(o.data), crc_bytes(o.indices), crc_bytes(o.indptr))
    o = np.asarray(o)
    return (o.shape, str(o.dtype), crc_bytes(o))


def crc_bytes(a):
    import zlib
    return zlib.crc32(np.ascontiguousarray(a).tobytes())


def sp_same(X, Y):
    """Value identity of two sparse matrices through sparse algebra only."""
    if not (sp.issparse(X) and sp.issparse(Y)) or X.shape != Y.shape:
        return False
    d = (sp.csr_matrix(X) - sp.csr_matrix(Y)).tocoo()
    return not bool(np.any(d.data != 0))


def own_block(A, posr, nr, posc, nc):
    """Sub-matrix of A from its COO triplets: entry (i, j) goes to (posr[i], posc[j]) when both are >= 0 (no fancy
    indexing of sparse matrices, which is what the library uses)."""
    c = A.tocoo()
    sel = (posr[c.row] >= 0) & (posc[c.col] >= 0)
    return sp.csr_matrix((c.data[sel], (posr[c.row[sel]], posc[c.col[sel]])), shape=(nr, nc))


@silenced
def fam_large(ctx, k):
    """n ~ 70000 (beyond int16/uint16 index range; tridiagonal, strictly diagonally dominant, dyadic entries, random
    rows without stored entries): the index arithmetic of enforce/condense on long arrays.  The oracle uses sparse
    algebra only and builds every reference block from the COO triplets of the input."""
    from skfem.utils import condense, enforce, penalize, solve
    rng = ctx.rng()
    n = int(rng.integers(66000, 75000))
    lo, upv = dy(rng, n - 1, lim=16), dy(rng, n - 1, lim=16)
    d = (np.abs(np.r_[0, lo]) + np.abs(np.r_[upv, 0]) + rng.integers(4, 25, size=n) / 8) * rng.choice([1.0, -1.0], size=n)
    rows = np.r_[np.arange(n), np.arange(1, n), np.arange(n - 1)]
    cols = np.r_[np.arange(n), np.arange(n - 1), np.arange(1, n)]
    vals = np.r_[d, lo, upv]
    emptyrows = np.unique(np.r_[rng.choice(n, size=int(rng.integers(1, 40)), replace=False),
                                [[0], [n - 1], [0, n - 1], []][k % 4]]).astype(np.int64)
    keep = ~np.isin(rows, emptyrows)
    idt = [np.int32, np.int64][k % 2]
    A = sp.csr_matrix((vals[keep], (rows[keep], cols[keep])), shape=(n, n))
    A = sp.csr_matrix((A.data, A.indices.astype(idt), A.indptr.astype(idt)), shape=(n, n))
    nD = [int(rng.integers(1, 60)), n // 3, n - int(rng.integers(1, 60)), n // 2][(k // 2) % 4]
    Dset = np.sort(rng.choice(n, size=nD, replace=False)).astype(np.int64)
    kept_empty = (k % 4 == 3)
    if kept_empty:
        Dset = np.setdiff1d(Dset, emptyrows[:1])        # one row without entries stays a kept one: A_II singular
    else:
        Dset = np.union1d(Dset, emptyrows)
    Iset = np.setdiff1d(np.arange(n, dtype=np.int64), Dset)
    nD, nI = int(Dset.size), int(Iset.size)
    isD = np.zeros(n, dtype=bool)
    isD[Dset] = True
    split = array_split(rng, n, Dset, ["D", "I", "D", "I", "D"][k % 5],
                        ARRAY_STYLES[[1, 0, 4, 2, 7, 5][k % 6]])
    b = dy(rng, n, nonzero=False)
    x = dy(rng, n) if k % 3 else None
    xf = np.zeros(n) if x is None else x
    tag = dict(n=n, nD=nD, index_dtype=str(A.indices.dtype), spelling=split.label,
               rows_without_entries=int(emptyrows.size), kept_row_without_entries=kept_empty)
    ctx.reached("large-system:n>65535")
    reach_empty_rows(ctx, A, split)
    note_collection(ctx, split)
    fps = lambda: (big_fp(A), big_fp(b), big_fp(x), big_fp(split.obj))
    f0 = fps()

    # ---- condense
    Ac, bc, xr, Ir = condense(A, b, x=x, **split.kw)
    ctx.check("no-argument-modified", fps() == f0, mech="argument-modified:condense", **tag)
    Iord = np.asarray(Ir, dtype=np.int64)
    okI = Iord.ndim == 1 and same(np.sort(Iord), Iset)
    ctx.check("condense-index-set", okI, mech="condense:index-set", **tag)
    y = None
    if okI:
        pos = np.full(n, -1, dtype=np.int64)
        pos[Iord] = np.arange(nI)
        posD = np.full(n, -1, dtype=np.int64)
        posD[Dset] = np.arange(nD)
        ctx.check("condense-matrix", sp_same(Ac, own_block(A, pos, nI, pos, nI)), mech="condense:matrix", **tag)
        AID = own_block(A, pos, nI, posD, nD)
        want = b[Iord] - AID @ xf[Dset]
        ctx.close("condense-rhs", bc, want, rtol=1e-13, scale=float(np.abs(b).max() + (abs(AID) @ np.abs(xf[Dset])).max())
                  if nI else 1.0, mech="condense:rhs", **tag)
        ctx.check("expanded-equals-x-on-constrained", same(np.asarray(xr), xf), mech="condense:returned-x", **tag)
        # expansion through the stub solver (always), through the default solver when A_II is nonsingular
        marker = np.arange(1, nI + 1) / 8
        Ac0, bc0 = Ac.copy(), bc.copy()
        ys = np.asarray(solve(Ac, bc, xr, Ir, solver=lambda K, r, **kw: marker.copy()))
        ctx.reached("expansion:stub-solver:vector-rhs")
        ctx.check("expanded-equals-x-on-constrained", ys.shape == (n,) and same(ys[Dset], xf[Dset]),
                  mech="condense:expansion-stub", **tag)
        ctx.check("expansion-places-solution-at-returned-I", ys.shape == (n,) and same(ys[Iord], marker),
                  mech="condense:expansion-order-stub", **tag)
        if not kept_empty:
            y = np.asarray(solve(Ac, bc, xr, Ir))
            ctx.reached("solve:linear-default")
            ctx.check("expanded-equals-x-on-constrained", y.shape == (n,) and same(y[Dset], xf[Dset]),
                      mech="condense:expansion", **tag)
            if y.shape == (n,):
                r = (A @ y - b)[Iset]
                sc = float((abs(A) @ np.abs(y) + np.abs(b))[Iset].max()) if nI else 0.0
                err = float(np.abs(r).max()) if nI else 0.0
                ctx.check("expanded-satisfies-kept-equations", np.isfinite(err) and err <= 1e-9 * sc,
                          mech="condense:residual", err=err, scale=sc, **tag)
            else:
                y = None
        ctx.check("no-argument-modified", fps() == f0 and sp_same(Ac, Ac0) and same(bc, bc0) and same(xr, xf)
                  and same(np.asarray(Ir, dtype=np.int64), Iord), mech="argument-modified:solve", **tag)
        # matrix right-hand side (lumped mass matrix): reduced consistently
        M = sp.diags(rng.integers(1, 17, size=n) / 8.0).tocsr()
        fM = big_fp(M)
        out = condense(A, M, **split.kw)
        Iord2 = np.asarray(out[3], dtype=np.int64)
        if ctx.check("condense-index-set", same(np.sort(Iord2), Iset), mech="condense:index-set", rhs_kind="matrix", **tag):
            pos2 = np.full(n, -1, dtype=np.int64)
            pos2[Iord2] = np.arange(nI)
            ctx.check("condense-matrix", sp_same(out[0], own_block(A, pos2, nI, pos2, nI)), mech="condense:matrix",
                      rhs_kind="matrix", **tag)
            ctx.check("condense-matrix-rhs-reduced", sp_same(out[1], own_block(M, pos2, nI, pos2, nI)),
                      mech="condense:matrix-rhs", **tag)
        Ae, Me = enforce(A, M, **split.kw)
        ctx.reached("enforce:mass-matrix-recursion")
        Mwant = sp.diags(np.where(isD, 0.0, M.diagonal())).tocsr()
        ctx.check("enforce-mass-rows", sp_same(Me, Mwant), mech="enforce:mass-rows", **tag)
        ctx.check("no-argument-modified", fps() == f0 and big_fp(M) == fM, mech="argument-modified:matrix-rhs", **tag)

    # ---- enforce (overwrite off, then on a copy with overwrite on)
    for overwrite in (False, True):
        diag = [1.0, -2.5, 0.5][(k + overwrite) % 3]
        A_in, b_in = (A.copy(), b.copy()) if overwrite else (A, b)
        ctx.reached("overwrite:on" if overwrite else "overwrite:off")
        Ae, be = enforce(A_in, b_in, x=x, diag=diag, overwrite=overwrite, **split.kw)
        if not overwrite:
            ctx.check("no-argument-modified", fps() == f0, mech="argument-modified:enforce", **tag)
        dd = (sp.csr_matrix(Ae) - A).tocoo()
        touched = np.unique(dd.row[dd.data != 0])
        nm_k = "overwrite-result-correct" if overwrite else "enforce-kept-rows-untouched"
        nm_r = "overwrite-result-correct" if overwrite else "enforce-constrained-rows-exact"
        ctx.check(nm_k, not isD[touched].size or bool(isD[touched].all()), mech="enforce:kept-rows",
                  rows_changed=lambda: touched[~isD[touched]][:10], **tag)
        want_rows = sp.csr_matrix((np.full(nD, diag), (Dset, Dset)), shape=(n, n))
        rowsel = sp.diags(isD.astype(float)).tocsr()
        ctx.check(nm_r, sp_same(rowsel @ sp.csr_matrix(Ae), want_rows), mech="enforce:constrained-rows", **tag)
        be = np.asarray(be)
        ctx.check("overwrite-result-correct" if overwrite else "enforce-rhs-exact",
                  be.shape == (n,) and same(be[Dset], xf[Dset]) and same(be[Iset], b[Iset]), mech="enforce:rhs", **tag)
    # ---- penalize
    eps = 2.0 ** -34
    Ap, bp = penalize(A, b, x=x, epsilon=eps, **split.kw)
    ctx.check("no-argument-modified", fps() == f0, mech="argument-modified:penalize", **tag)
    dd = (sp.csr_matrix(Ap) - A).tocoo()
    nz = dd.data != 0
    ctx.check("penalize-only-constrained-entries-change",
              bool(np.all(dd.row[nz] == dd.col[nz]) and np.all(isD[dd.row[nz]])) and same(np.asarray(bp)[Iset], b[Iset]),
              mech="penalize:touches-other-entries", **tag)
    pen = np.asarray(Ap.diagonal())[Dset]
    ctx.reached("penalize:explicit-epsilon-held-to-its-value")
    ctx.check("penalize-epsilon-honoured", bool(np.all(np.abs(pen) >= 0.5 / eps)),
              mech="penalize:penalty-weaker-than-1/epsilon", **tag)
    Adiag = np.asarray(A.diagonal())
    slack = np.abs(xf[Dset]) * np.abs(Adiag[Dset]) + np.abs(b[Dset]) + 8 * np.finfo(float).eps * np.abs(xf[Dset]) / eps
    ctx.check("penalize-epsilon-honoured", bool(np.all(np.abs(np.asarray(bp)[Dset] - xf[Dset] / eps) <= slack)),
              mech="penalize:rhs-not-x-times-1/epsilon", **tag)
    if y is not None and not kept_empty:
        import scipy.sparse.linalg as spl
        # each constrained row rescaled by its own penalty (the simple SuperLU driver does not equilibrate: on the
        # unscaled system its own rounding, about 1e-7, would be mistaken for penalty error)
        rs = np.ones(n)
        rs[Dset] = 1.0 / pen
        yp = spl.spsolve(sp.csc_matrix(sp.diags(rs) @ Ap), rs * np.asarray(bp))
        # strictly diagonally dominant rows (margin >= 1/2): |A_II^-1| <= 2, |A_ID| <= 4, rows of A on D <= 12
        big = max(float(np.abs(yp).max()), float(np.abs(xf[Dset]).max()))
        tol = 2 * (2 * 4) * 12 * big * eps + 1e-9 * max(float(np.abs(y).max()), 1e-300)
        err = float(np.abs(yp - y).max())
        ctx.check("penalize-agrees-up-to-epsilon", np.isfinite(err) and err <= tol, mech="penalize:solution", err=err,
                  tol=tol, **tag)
    ctx.nontrivial("large", split.spelling_class, str(A.indices.dtype), bool(kept_empty))
    ctx.sample(tag, per_family=1)


# ---------------------------------------------------- repeated constrained index
@silenced
def fam_repeated(ctx, k):
    """The constrained set given as an index array that lists an index more than once (what
    `np.hstack((dofs_left, dofs_bottom))` gives at a corner; the library itself points to numpy.hstack
    for unions of DOF sets).  The set, hence the answer, is the same."""
    rng = ctx.rng()
    n = int(rng.integers(4, 20))
    Dset = np.sort(rng.choice(n, size=int(rng.integers(2, n)), replace=False)).astype(np.int64)
    A = gen_matrix(rng, n, density=0.6)
    b, x = dy(rng, n), dy(rng, n)
    rep = np.concatenate([Dset, rng.choice(Dset, size=int(rng.integers(1, 3)))])
    rep = rep[rng.permutation(rep.size)].astype([np.int32, np.int64][k % 2])
    split = Split("D", rep, Dset, n, "D:array-with-repeats")
    ref = Ref(A, b, x, Dset)
    tag = dict(n=n, D_given=rep)

    def pred():
        # explicit predicate: the rhs equals the model in which repeated columns are subtracted once per repeat
        from skfem.utils import condense
        bc = condense(A, b, x=x, D=rep, expand=False)[1]
        I = ref.I
        model = b[I] - ref.Ad[np.ix_(I, rep.astype(np.int64))] @ x[rep.astype(np.int64)]
        return REPEAT if np.allclose(bc, model, rtol=1e-13, atol=0) and ref.Ad[np.ix_(I, rep.astype(np.int64))].any() \
            else None
    mech = pred()
    check_condense(ctx, A, b, x, split, ref, tag, mechs={"rhs": mech or "condense:rhs",
                                                            "residual": mech or "condense:residual"})
    check_enforce(ctx, A, b, x, split, ref, tag, y_condense=None)
    check_penalize(ctx, A, b, x, split, ref, tag, epsilon=2.0 ** -30)
    ctx.nontrivial("repeated-index", int(rep.size - Dset.size))


def fam_magnitudes(ctx, k):
    """Prescribed values, right-hand sides and matrices over 60 orders of magnitude (nanometre displacements in
    metres, physical constants): the statement is scale free, so small data are data and not rounding noise.
    Oracle: dense model; everything is a power-of-two multiple of dyadic numbers, so the model is exact."""
    import scipy.sparse as sp
    from skfem.utils import condense, enforce, penalize, solve
    rng = ctx.rng()
    n = int(rng.integers(4, 12))
    sx, sb, sa = (float(2.0 ** rng.choice([0, -40, -30, 25])) for _ in range(3))
    Ad = np.diag(rng.integers(4, 9, size=n).astype(float)) + rng.integers(-1, 2, size=(n, n)) * (rng.random((n, n)) < 0.4)
    Ad = Ad * sa
    A = sp.csr_matrix(Ad)
    D = np.sort(rng.choice(n, size=int(rng.integers(1, n - 1)), replace=False))
    I = np.setdiff1d(np.arange(n), D)
    x = np.zeros(n)
    x[D] = rng.integers(-8, 9, size=D.size) / 8 * sx
    if not np.any(x[D]):
        x[D[0]] = sx / 8
    b = rng.integers(-8, 9, size=n) / 8 * sb * sa
    tag = dict(n=n, scales=[sx, sb, sa], D=D.tolist())
    # reference: solve the kept equations with the prescribed values moved to the right-hand side
    yI = np.linalg.solve(Ad[np.ix_(I, I)], b[I] - Ad[np.ix_(I, D)] @ x[D])
    yref = x.copy()
    yref[I] = yI
    scale = float(np.abs(Ad) @ np.abs(yref) + np.abs(b)).__class__(1) if False else float((np.abs(Ad) @ np.abs(yref) + np.abs(b)).max())
    y = solve(*condense(A, b, x=x, D=D))
    ctx.check("expanded-equals-x-on-constrained", np.array_equal(y[D], x[D]), mech="magnitudes:expanded-values", **tag)
    res = float(np.abs((Ad @ y - b)[I]).max())
    ctx.check("expanded-satisfies-kept-equations", res <= 1e-9 * scale, mech="condense:small-or-large-data-dropped",
              residual=res, scale=scale, **tag)
    Ae, be = enforce(A, b, x=x, D=D)
    ye = np.linalg.solve(np.asarray(Ae.toarray()), be)
    ctx.check("enforce-same-solution-as-condense", float(np.abs(ye - yref).max()) <= 1e-9 * float(np.abs(yref).max()),
              mech="enforce:small-or-large-data", **tag)
    Ap, bp = penalize(A, b, x=x, D=D)
    Apd = np.asarray(Ap.toarray())
    pen = Apd[D, D]
    yp = np.linalg.solve(Apd, np.asarray(bp, dtype=float))
    ctx.check("penalize-agrees-up-to-epsilon", float(np.abs(yp - yref).max()) <= 1e-6 * float(np.abs(yref).max()),
              mech="penalize:small-or-large-data", err=float(np.abs(yp - yref).max()), ymax=float(np.abs(yref).max()),
              pen=pen.tolist(), **tag)
    ctx.reached("data-magnitudes")
    ctx.nontrivial("magnitudes", sx, sb, sa)


def fam_hermitian_eigen(ctx, k):
    """Complex Hermitian pencil through the ARPACK symmetric solver (real eigenvalues, complex eigenvectors): the
    expanded eigenvectors vanish on D and satisfy the kept equations."""
    import scipy.sparse as sp
    from skfem.utils import condense, solve, solver_eigen_scipy_sym
    rng = ctx.rng()
    n = int(rng.integers(14, 24))
    R = rng.integers(-2, 3, size=(n, n)) * (rng.random((n, n)) < 0.3)
    C = rng.integers(-2, 3, size=(n, n)) * (rng.random((n, n)) < 0.3)
    H = (R + R.T) + 1j * (C - C.T) + np.diag(rng.integers(8, 16, size=n) + 4.0 * np.arange(n))
    M = np.diag(rng.integers(1, 4, size=n).astype(float))
    D = np.sort(rng.choice(n, size=int(rng.integers(1, 4)), replace=False))
    I = np.setdiff1d(np.arange(n), D)
    A, Ms = sp.csr_matrix(H), sp.csr_matrix(M)
    kk = 3
    L, Y = solve(*condense(A, Ms, D=D), solver=solver_eigen_scipy_sym(k=kk, sigma=0.0))
    tag = dict(n=n, D=D.tolist())
    ctx.check("eigen-expanded-equals-x-on-constrained", Y.shape == (n, kk) and not np.any(Y[D]),
              mech="hermitian-eigen:constrained-entries", **tag)
    worst = 0.0
    for j in range(kk):
        r = (H @ Y[:, j] - L[j] * (M @ Y[:, j]))[I]
        worst = max(worst, float(np.abs(r).max()) / (float(np.abs(H).sum(1).max()) * float(np.abs(Y[:, j]).max()) + 1e-300))
    ctx.check("eigen-expanded-satisfies-kept-equations", worst <= 1e-8, mech="hermitian-eigen:expanded-eigenvectors-wrong",
              residual=worst, complex_part=float(np.abs(Y.imag).max()), **tag)
    ref = np.sort(np.linalg.eigvals(np.linalg.solve(M[np.ix_(I, I)], H[np.ix_(I, I)])).real)[:kk]
    ctx.check("eigen-expanded-satisfies-kept-equations", float(np.abs(np.sort(L.real) - ref).max()) <= 1e-7 * float(np.abs(ref).max()),
              mech="hermitian-eigen:eigenvalues", **tag)
    ctx.reached("complex-hermitian-pencil")
    ctx.nontrivial("hermitian-eigen", n, int(D.size))


FAMILIES = [
    Family("magnitudes", fam_magnitudes, quick=120, thorough=3600),
    Family("hermitian-eigen", fam_hermitian_eigen, quick=20, thorough=600),
    Family("directed", fam_directed, quick=4, thorough=4),
    Family("exhaustive-small", fam_exhaustive_small, quick=16, thorough=48, exhaustive=True),
    Family("random-linear", fam_random_linear, quick=1500, thorough=44000, budget={"quick": 60, "thorough": 600}),
    Family("random-eigen", fam_random_eigen, quick=550, thorough=16000, budget={"quick": 30, "thorough": 480}),
    Family("mpc", fam_mpc, quick=700, thorough=20000, budget={"quick": 20, "thorough": 300}),
    Family("fem-views", fam_fem_views, quick=240, thorough=6400, budget={"quick": 60, "thorough": 600}),
    Family("degenerate-collections", fam_degenerate, quick=36, thorough=900, budget={"quick": 20, "thorough": 300}),
    Family("formats", fam_formats, quick=24, thorough=480),
    Family("formats-matrix-rhs", fam_formats_matrix_rhs, quick=64, thorough=1600),
    Family("dtype-mix", fam_dtype_mix, quick=40, thorough=1200),
    Family("low-precision", fam_lowprec, quick=120, thorough=3600, budget={"quick": 20, "thorough": 300}),
    Family("repeated-index", fam_repeated, quick=30, thorough=900),
    Family("large", fam_large, quick=4, thorough=64, budget={"quick": 25, "thorough": 300}),
]
