"""C17 Saving and loading a mesh round-trips geometry, connectivity and tags.

Oracle: the mesh that was exported.  Every export/import pair of the statement is executed on a mesh
with generated tags and the loaded mesh is compared clause by clause with the original:

* mesh class, vertex coordinates (bit pattern), connectivity (`t` and, for second-order classes, the
  node coordinates cell by cell), tag names,
* subdomains as sets of cell indices,
* boundaries as sets of facets identified by their *vertex sets* (not only by facet number),
* orientations as sets of (facet vertex set, index of the cell the flag selects): flag o of facet f
  means "the trace is taken from cell f2t[o, f]", so the owner cell is what has to survive,
* user point/cell data (float64/int64 and float32/int32/uint8: values), and a byte-level snapshot of the mesh
  (p, t, element_dofs, the cached facets/t2f/f2t, tag arrays) before/after every export,
* the call variants load(path, out=[...]) / load(path) / load(pathlib.Path), save(str | Path), from_meshio(m[, out]),
* the loaded mesh is used: loaded.f2t[tag.ori, tag] must work, and it is re-exported in further formats
  (`chain`), every link being compared with the original again.

Pitfalls found while building (library right / third party, oracle adapted):
* meshio 5.3.5 + NumPy 2 cannot read back its own *ASCII* gmsh files as soon as they hold any
  $NodeData/$ElementData (the writer prints `np.int64(0)`), and its ASCII .vtu writer keeps only
  ~12 digits.  Neither is scikit-fem code: gmsh-ASCII is not generated, vtu-ASCII is compared with
  rtol 1e-10 relative to max|p|.
* Legacy VTK refuses field names with blanks (meshio.WriteError): a refusal is not a wrong round trip.
* gmsh stores $NodeData/$ElementData as reals, so integer user data return as float64 with equal values:
  values are compared, not dtypes.
* An OrientedBoundary whose flags are all 0 legitimately returns as a plain index array.
* `MeshTri1` sorts every cell's vertices on construction (class default sort_t=True); a
  `MeshTri1.oriented()` mesh (sort_t=False) therefore returns with re-sorted columns from every
  format.  The re-sorting itself is the class' normal form and is accepted (columns compared as sets), and
  the raw 0/1 flags are then not comparable either (the column order of f2t follows the local vertex order):
  only (facet, owner cell) is.  What is *not* accepted is that the tags come back on other facets (RESORT_MECH).
* npz/dict/JSON do not store the class: the caller names it (`type(m).load_npz`, `type(m).from_dict`);
  only `skfem.io.json.from_file` and `Mesh.load` detect it.
* An oriented tag is a multiset of (facet, flag): (f, 0) and (f, 1) in one tag are two entries (both sides of an
  interface).  The bit-mask decoder returns them in facet order, so pairs are compared as sorted lists.  Duplicates in
  *plain* tags are outside the statement and never generated.
* Integer user data are compared exactly also after ASCII .vtu (abs(int32 min) overflows in a relative test).
* Coordinates of the shared generators are short dyadic rationals which every decimal format prints
  exactly; the cases here are additionally mapped by irrational affine maps so that all 53 mantissa bits matter.
"""
from __future__ import annotations

import contextlib
import io
import os
import pathlib
import tempfile
from dataclasses import replace

import numpy as np

from ..engine import Family, Skip
from ..gen import meshes as G

PID = "C17"
RULE = ("random first- and second-order (straight and curved) tri/quad/tet/hex meshes (renumbered, permuted, local "
        "orders, holes; coordinates mapped by irrational scalings/offsets) x generated tag sets (overlapping cell "
        "subsets, boundary/interior/mixed facet subsets, OrientedBoundary with random 0/1 flags on interior facets, "
        "closed interfaces from facets_around, two-sided oriented tags (one interior facet with flag 0 and with flag "
        "1), all interior facets, empty tags, int32/int64/strided/read-only index "
        "arrays) x {gmsh 4.1, gmsh 2.2, vtk, vtu (binary, ascii, uncompressed), to_meshio/from_meshio, npz, "
        "dict, json}; plus directed cases and re-export of every mesh under docs/examples/meshes; distinct key = "
        "(mesh class, format, tag kinds); non-trivial iff >= 1 interior facet is tagged with flag 1 or two tagged "
        "facets of one tag share a cell")
TRACK = ["skfem.io.meshio:to_meshio", "skfem.io.meshio:from_meshio", "skfem.io.meshio:to_file",
         "skfem.mesh.mesh:Mesh._encode_cell_data", "skfem.mesh.mesh:Mesh._decode_cell_data",
         "skfem.mesh.mesh:Mesh._encode_point_data",
         "skfem.mesh.mesh:Mesh.save", "skfem.mesh.mesh:Mesh.load", "skfem.mesh.mesh:Mesh.to_dict",
         "skfem.mesh.mesh:Mesh.from_dict", "skfem.mesh.mesh:Mesh.save_npz", "skfem.mesh.mesh:Mesh.load_npz",
         "skfem.mesh.mesh:Mesh.__post_init__", "skfem.io.json:to_file", "skfem.io.json:from_file",
         "skfem.generic_utils:OrientedBoundary.__new__"]
REQUIRED_MONITORS = ["mesh-class", "vertex-coordinates", "connectivity", "high-order-nodes-per-cell", "tag-names",
                     "subdomain-sets", "boundary-facet-sets", "orientations", "tag-arrays-are-index-arrays",
                     "point-data", "cell-data", "export-does-not-alter-mesh", "export-succeeds",
                     "loaded-orientation-usable"]
REQUIRED_REACH = ["more-than-127-cells", "interior-facet-flag-1", "two-tagged-facets-share-owner-cell", "several-subdomains-share-cell",
                  "second-order-curved", "hex-permutation", "docs-meshes-cycled", "oriented-boundary-loaded",
                  "boundary-and-interior-facets-in-one-tag", "format:gmsh41", "format:gmsh22", "format:vtk",
                  "format:vtu", "format:meshio-object", "format:npz", "format:dict", "format:json",
                  "tags:subdomains-only", "tags:boundaries-only",
                  "two-sided-oriented-tag", "two-sided-oriented-tag-loaded", "chain-hop-2", "chain-hop-3+",
                  "hostile-name-oriented", "empty-tag-dictionaries", "user-data-kind:float32",
                  "user-data-kind:int32", "user-data-kind:uint8", "load-without-out", "load-pathlib-path",
                  "save-pathlib-path", "from_meshio-without-out"]
ASSUMPTIONS = [
    "meshio (third party) reads back what it wrote for binary gmsh 2.2/4.1, vtk and vtu; ASCII gmsh is excluded "
    "because meshio 5.3.5 under NumPy 2 cannot re-read its own ASCII $ElementData",
    "orientation flag o of facet f is read as 'owner cell f2t[o, f]' (the meaning used by FacetBasis); f2t itself is "
    "judged by C11",
    "npz and dict forms are loaded through the class of the saved mesh (the formats do not record it)",
]

# (name, extension, kwargs of Mesh.save, exact coordinates?)
MESHIO_FORMATS = [
    ("gmsh41", ".msh", {}, True),
    ("gmsh22", ".msh", {"file_format": "gmsh22"}, True),
    ("vtk", ".vtk", {}, True),
    ("vtu", ".vtu", {}, True),
]
MESHIO_VARIANTS = [
    ("vtk-ascii", ".vtk", {"binary": False}, True),
    ("vtu-ascii", ".vtu", {"binary": False}, False),   # meshio prints ~12 digits
    ("vtu-uncompressed", ".vtu", {"compression": None}, True),
    ("gmsh41-explicit", ".msh", {"file_format": "gmsh"}, True),
    ("vtu-pointenc", ".vtu", {"encode_point_data": True}, True),   # tags additionally written as nodal indicators
]
OTHER_FORMATS = ["meshio-object", "npz", "dict", "json"]
MESHIO_LIKE = {f[0] for f in MESHIO_FORMATS + MESHIO_VARIANTS} | {"meshio-object"}

# MeshTri1 built with sort_t=False (e.g. MeshTri1.oriented()): the bit masks are written per facet slot of the saved
# cells, the loader sorts every cell's vertices (class default) *before* decoding, so the slots mean other facets
RESORT_MECH = "tri1-sort_t-false-bitmask-decoded-after-resorting-cells"

NAME_POOL = ["left", "Gamma_int", "inner-1", "sub.2", "k7", "UPPER", "upper", "x_y", "b_edge", "s_core", "Ωi", "0"]


@contextlib.contextmanager
def quiet():
    """meshio reports padding of 2-D points etc. on stderr through rich; keep the run log readable."""
    with contextlib.redirect_stderr(io.StringIO()), contextlib.redirect_stdout(io.StringIO()):
        yield


# --------------------------------------------------------------------------- reference description of the tags
class Tags:
    """What was put on the mesh, in plain Python containers (the reference the loaded mesh is held against)."""

    def __init__(self):
        self.sub = {}       # name -> sorted list of cell indices
        self.bnd = {}       # name -> list of (facet index, flag)
        self.kinds = {}     # name -> generator kind
        self.arrays_sub = {}
        self.arrays_bnd = {}
        self.only = None

    def add_sub(self, name, arr, kind):
        self.sub[name] = sorted(int(c) for c in arr)
        self.arrays_sub[name] = arr
        self.kinds["s:" + name] = kind

    def add_bnd(self, name, arr, ori, kind):
        from skfem.generic_utils import OrientedBoundary
        facets = [int(f) for f in np.asarray(arr)]
        flags = [0] * len(facets) if ori is None else [int(o) for o in ori]
        self.bnd[name] = list(zip(facets, flags))
        self.arrays_bnd[name] = arr if ori is None else OrientedBoundary(arr, ori)
        self.kinds["b:" + name] = kind

    def apply(self, mesh):
        m = mesh
        if self.arrays_sub:
            m = m.with_subdomains(dict(self.arrays_sub))
        if self.arrays_bnd:
            m = m.with_boundaries(dict(self.arrays_bnd))
        return m


def hostile_array(rng, values, readonly=True):
    """Index array in one of the forms a caller may hand in: int32/int64, shuffled, strided view, read-only."""
    values = np.asarray(values, dtype=np.int64)
    values = values[rng.permutation(values.size)] if values.size else values
    form = int(rng.integers(4))
    if form == 0:
        a = values.astype(np.int32)
    elif form == 1:
        a = values.astype(np.int64)
    elif form == 2:   # strided, non-contiguous view
        buf = np.zeros(2 * values.size + 1, dtype=np.int64)
        buf[1::2][:values.size] = values
        a = buf[1::2][:values.size]
    else:
        a = np.array(values, dtype=np.int32, order="F")
    if readonly and rng.random() < 0.5:
        a.setflags(write=False)
    return a


def facet_classes(mesh):
    f2t = np.asarray(mesh.f2t)
    interior = np.nonzero(f2t[1] != -1)[0]
    boundary = np.nonzero(f2t[1] == -1)[0]
    return interior, boundary


def random_tags(rng, mesh, names=None, rich=True):
    """Several subdomains sharing cells, boundary / interior / mixed facet sets, oriented interfaces."""
    tags = Tags()
    nt = mesh.t.shape[1]
    interior, boundary = facet_classes(mesh)
    pool = list(names if names is not None else rng.permutation(NAME_POOL))
    nxt = iter(pool)

    def take(k, of):
        of = np.asarray(of)
        k = int(min(max(k, 0), of.size))
        return of[rng.permutation(of.size)[:k]] if of.size else of[:0]

    # subdomains: two overlapping random subsets (+ sometimes everything / nothing)
    a = take(rng.integers(1, max(2, nt // 2 + 1)), np.arange(nt))
    b = np.union1d(take(rng.integers(1, max(2, nt // 2 + 1)), np.arange(nt)), a[:max(1, a.size // 2)])
    tags.add_sub(next(nxt), hostile_array(rng, a), "sub-random")
    tags.add_sub(next(nxt), hostile_array(rng, b), "sub-overlap")
    r = rng.random()
    if r < 0.2:
        tags.add_sub(next(nxt), hostile_array(rng, np.arange(nt)), "sub-all")
    elif r < 0.35:
        tags.add_sub(next(nxt), hostile_array(rng, []), "sub-empty")

    # plain facet sets
    if boundary.size:
        tags.add_bnd(next(nxt), hostile_array(rng, take(rng.integers(1, boundary.size + 1), boundary)), None,
                     "bnd-boundary")
    if interior.size:
        tags.add_bnd(next(nxt), hostile_array(rng, take(rng.integers(1, interior.size + 1), interior)), None,
                     "bnd-interior")
    if rich and interior.size and boundary.size:
        mix = np.concatenate([take(rng.integers(1, 6), interior), take(rng.integers(1, 6), boundary)])
        tags.add_bnd(next(nxt), hostile_array(rng, mix), None, "bnd-mixed")

    # oriented sets
    if interior.size:
        sel = hostile_array(rng, take(rng.integers(1, interior.size + 1), interior), readonly=False)
        flags = rng.integers(0, 2, size=sel.size)
        if sel.size and not flags.any():
            flags[rng.integers(sel.size)] = 1
        tags.add_bnd(next(nxt), sel, flags, "ori-interior")
    if rich:
        r = rng.random()
        if r < 0.3 and interior.size and boundary.size:
            fi, fb = take(rng.integers(1, 8), interior), take(rng.integers(1, 5), boundary)
            sel = np.concatenate([fi, fb])
            flags = np.concatenate([rng.integers(0, 2, size=fi.size), np.zeros(fb.size, dtype=int)])
            perm = rng.permutation(sel.size)
            tags.add_bnd(next(nxt), sel[perm].astype(np.int32), flags[perm], "ori-mixed")
        elif r < 0.5 and interior.size:
            sel = interior[rng.permutation(interior.size)]
            tags.add_bnd(next(nxt), sel.astype(np.int64), rng.integers(0, 2, size=sel.size), "ori-all-interior")
        elif r < 0.7:
            # closed interface around a cell set, as produced by the library's own helper
            cells = take(rng.integers(1, max(2, nt // 2)), np.arange(nt))
            ob = mesh.facets_around(np.sort(cells).astype(np.int32), flip=bool(rng.integers(2)))
            keep = np.asarray(mesh.f2t)[1, np.asarray(ob)] != -1   # flag 1 is meaningless on a boundary facet
            if keep.any():
                tags.add_bnd(next(nxt), np.asarray(ob)[keep], np.asarray(ob.ori)[keep], "ori-around")
        elif r < 0.8 and interior.size:
            sel = take(rng.integers(1, 6), interior)
            tags.add_bnd(next(nxt), sel.astype(np.int32), np.zeros(sel.size, dtype=int), "ori-all-zero")
        elif r < 0.9:
            tags.add_bnd(next(nxt), np.array([], dtype=np.int32), None, "bnd-empty")
        elif interior.size:
            f, o = two_sided(rng, mesh, interior)
            tags.add_bnd(next(nxt), f, o, "ori-two-sided")
    # meshes carrying one kind of tag only
    r = rng.random()
    if r < 0.12:
        tags.bnd.clear()
        tags.arrays_bnd.clear()
        tags.kinds = {k: v for k, v in tags.kinds.items() if not k.startswith("b:")}
        tags.only = "subdomains-only"
    elif r < 0.24:
        tags.sub.clear()
        tags.arrays_sub.clear()
        tags.kinds = {k: v for k, v in tags.kinds.items() if not k.startswith("s:")}
        tags.only = "boundaries-only"
    return tags


def two_sided(rng, mesh, interior):
    """An oriented tag that holds interior facets from *both* sides: (f, 0) and (f, 1) are two different entries
    (trace from the one and from the other neighbour).  Either the union of facets_around(A) and
    facets_around(complement of A), the way a caller gets such a tag, or random facets listed twice mixed with
    facets listed once; random order."""
    nt = mesh.t.shape[1]
    if rng.random() < 0.5 and nt >= 2:
        cells = np.sort(rng.permutation(nt)[:int(rng.integers(1, nt))]).astype(np.int32)
        rest = np.setdiff1d(np.arange(nt, dtype=np.int32), cells)
        a, b = mesh.facets_around(cells), mesh.facets_around(rest)
        f = np.concatenate([np.asarray(a), np.asarray(b)])
        o = np.concatenate([np.asarray(a.ori), np.asarray(b.ori)])
    else:
        twice = interior[rng.permutation(interior.size)[:int(rng.integers(1, interior.size + 1))]]
        once = np.setdiff1d(interior, twice)
        once = once[rng.permutation(once.size)[:int(rng.integers(0, 4))]]
        f = np.concatenate([twice, twice, once])
        o = np.concatenate([np.zeros(twice.size, dtype=int), np.ones(twice.size, dtype=int),
                            rng.integers(0, 2, size=once.size)])
    perm = rng.permutation(f.size)
    return f[perm].astype(np.int32 if rng.random() < 0.5 else np.int64), o[perm]


# ------------------------------------------------------------------------------------------- snapshots, keys
def snapshot(mesh):
    def arr(a):
        a = np.asarray(a)
        return (a.dtype.str, a.shape, a.tobytes())
    # element_dofs is derived and cached on the mesh, but it is what the exporters write as connectivity
    # ... and facets/t2f/f2t are the cached entities the tag encoder reads (and every later FacetBasis uses)
    snap = {"p": arr(mesh.doflocs), "t": arr(mesh.t), "cls": type(mesh).__name__,
            "element_dofs": arr(mesh.dofs.element_dofs),
            "facets": arr(mesh.facets), "t2f": arr(mesh.t2f), "f2t": arr(mesh.f2t)}
    for nm, d in (("s", mesh.subdomains), ("b", mesh.boundaries)):
        if d is None:
            snap[nm] = None
            continue
        snap[nm] = [(k, type(v).__name__, arr(v), None if getattr(v, "ori", None) is None else arr(v.ori))
                    for k, v in d.items()]
    return snap


def facet_key(facets, f):
    return tuple(sorted(int(v) for v in facets[:, f]))


def geo_pairs(mesh, facets_idx, flags):
    """Sorted list (a multiset: an oriented tag may list one interior facet twice, once per side) of
    (vertex set of the facet, owner cell selected by the flag)."""
    fac = np.asarray(mesh.facets)
    f2t = np.asarray(mesh.f2t)
    return sorted((facet_key(fac, f), int(f2t[o, f])) for f, o in zip(facets_idx, flags))


def flags_of(arr):
    ori = getattr(arr, "ori", None)
    if ori is None:
        return [0] * len(arr)
    return [int(o) for o in ori]


def a9_model(mesh, pairs):
    """Flags the *defective* decoder would deliver for the reference pairs: it sorts the facet numbers read from
    the bit mask but keeps the owning cells in mask order (slot-major, then by cell) before pairing them.
    Used only to classify a witness under the recorded mechanism."""
    t2f = np.asarray(mesh.t2f)
    f2t = np.asarray(mesh.f2t)
    mask = np.zeros(t2f.shape, dtype=bool)
    for f, o in pairs:
        c = f2t[o, f]
        s = np.nonzero(t2f[:, c] == f)[0]
        if c < 0 or s.size == 0:
            return None
        mask[s[0], c] = True
    fs = np.sort(t2f[mask])
    cells = mask.nonzero()[1]
    return sorted((int(f), int(f2t[1, f] == c)) for f, c in zip(fs, cells))


# ---------------------------------------------------------------------------------------------- comparisons
def compare(ctx, fmt, orig, tags, loaded, exact_p=True, resorted_ok=False, case=None):
    """Hold the loaded mesh against the original, clause by clause."""
    cls = type(orig).__name__
    info = {"format": fmt, "mesh": cls, "case": case}
    base = fmt.split(">")[-1]          # "chain>vtk": the loaded mesh of an earlier hop re-exported as vtk
    ctx.check("mesh-class", type(loaded) is type(orig), mech=f"class:{fmt}:{cls}", got=type(loaded).__name__, **info)

    p0, p1 = np.asarray(orig.doflocs), np.asarray(loaded.doflocs)
    if exact_p:
        same_p = p0.shape == p1.shape and p0.dtype == p1.dtype and p0.tobytes() == p1.tobytes()
        ctx.check("vertex-coordinates", same_p, mech=f"coordinates:{fmt}:{cls}",
                  shapes=(p0.shape, p1.shape),
                  maxdiff=lambda: float(np.abs(p0 - p1).max()) if p0.shape == p1.shape else None, **info)
    else:
        same_p = p0.shape == p1.shape
        if same_p:
            same_p = ctx.close("vertex-coordinates", p1, p0, rtol=1e-10, mech=f"coordinates:{fmt}:{cls}", **info)
        else:
            ctx.check("vertex-coordinates", False, mech=f"coordinates:{fmt}:{cls}", shapes=(p0.shape, p1.shape), **info)

    t0, t1 = np.asarray(orig.t), np.asarray(loaded.t)
    same_t = t0.shape == t1.shape and np.array_equal(t0, t1)
    resorted = False
    if not same_t and resorted_ok and t0.shape == t1.shape and np.array_equal(np.sort(t0, axis=0), t1):
        # MeshTri1 normal form (see module docstring); vertex numbering and cell order are still identical
        ctx.reached("tri1-sort_t-false-resorted")
        ctx.ok("connectivity")
        comparable = resorted = True
    else:
        ctx.check("connectivity", same_t, mech=f"connectivity:{fmt}:{cls}", shapes=(t0.shape, t1.shape),
                  first_bad=lambda: (np.argwhere(t0 != t1)[:3].tolist() if t0.shape == t1.shape else None), **info)
        comparable = same_t
    if same_p and same_t and exact_p:
        # node coordinates seen from each cell: independent of how the nodes are numbered globally
        e0 = np.asarray(orig.dofs.element_dofs)
        e1 = np.asarray(loaded.dofs.element_dofs)
        ctx.check("high-order-nodes-per-cell", e0.shape == e1.shape and np.array_equal(p0[:, e0], p1[:, e1]),
                  mech=f"cell-nodes:{fmt}:{cls}", **info)

    if tags is None:
        return comparable

    # ---- tag names
    for what, ref, got in (("subdomain", tags.sub, loaded.subdomains), ("boundary", tags.bnd, loaded.boundaries)):
        got_names = set() if got is None else set(got)
        missing = sorted(set(ref) - got_names)
        extra = sorted(got_names - set(ref))

        def names_mech(missing=missing, extra=extra):
            if (base in MESHIO_LIKE and missing and all(":" in n for n in missing)
                    and set(extra) <= {n.split(":")[0] for n in missing}):
                return "tag-name-truncated-at-colon"
            return f"tag-names:{fmt}:{what}"
        ctx.check("tag-names", not missing and not extra, mech=names_mech, what=what, missing=missing, extra=extra,
                  **info)
    if not comparable:
        ctx.drop("tags-not-comparable:connectivity-differs")
        return False

    # ---- subdomains
    for name, ref in tags.sub.items():
        got = None if loaded.subdomains is None else loaded.subdomains.get(name)
        if got is None:
            continue  # reported by tag-names
        got = np.asarray(got)
        index_like = got.dtype.kind in "iu" and got.ndim == 1
        ctx.check("tag-arrays-are-index-arrays", index_like,
                  mech=("dict-json-empty-tag-loads-as-float-array"
                        if base in ("dict", "json") and got.size == 0 and not ref and got.dtype.kind == "f"
                        else f"tag-dtype:{fmt}:subdomain"),
                  name=name, dtype=str(got.dtype), **info)
        lst = [int(c) for c in got.tolist()]
        ctx.check("subdomain-sets", sorted(lst) == ref, mech=f"subdomain-set:{fmt}:{cls}", name=name,
                  kind=tags.kinds.get("s:" + name), expected=ref[:40], got=sorted(lst)[:40], **info)

    # ---- boundaries and orientations
    fac0 = np.asarray(orig.facets)
    fac1 = np.asarray(loaded.facets)
    for name, ref in tags.bnd.items():
        got = None if loaded.boundaries is None else loaded.boundaries.get(name)
        if got is None:
            continue
        garr = np.asarray(got)
        index_like = garr.dtype.kind in "iu" and garr.ndim == 1
        ctx.check("tag-arrays-are-index-arrays", index_like,
                  mech=("dict-json-empty-tag-loads-as-float-array"
                        if base in ("dict", "json") and garr.size == 0 and not ref and garr.dtype.kind == "f"
                        else f"tag-dtype:{fmt}:boundary"),
                  name=name, dtype=str(garr.dtype), **info)
        gidx = [int(f) for f in garr.tolist()]
        gflags = flags_of(got)
        if hasattr(got, "ori") and got.ori is not None and any(gflags):
            ctx.reached("oriented-boundary-loaded")
        in_range = all(0 <= f < fac1.shape[1] for f in gidx)
        gori = getattr(got, "ori", None)
        if gori is not None:
            # the loaded orientation has to be usable the way the library uses it: mesh.f2t[ori, facets]
            well = (isinstance(gori, np.ndarray) and gori.dtype.kind in "iu" and gori.shape == garr.shape
                    and bool(np.isin(gori, (0, 1)).all()))
            owners = None
            if well and in_range:
                try:
                    owners = np.asarray(loaded.f2t)[got.ori, got]
                except Exception as e:      # noqa: BLE001 - any failure of the documented indexing is the finding
                    owners = repr(e)[:120]
                well = (isinstance(owners, np.ndarray) and owners.shape == garr.shape
                        and owners.tolist() == [int(loaded.f2t[o, f]) for f, o in zip(gidx, gflags)])
            ctx.check("loaded-orientation-usable", well, mech=f"orientation-array-unusable:{fmt}", name=name,
                      dtype=str(getattr(gori, "dtype", type(gori).__name__)),
                      shape=(getattr(gori, "shape", None), garr.shape),
                      owners=lambda: owners if isinstance(owners, str) else None, **info)
        ref_keys = sorted(facet_key(fac0, f) for f, _ in ref)
        got_keys = sorted(facet_key(fac1, f) for f in gidx) if in_range else None
        # facet numbers are a function of the sorted vertex tuples only, so they are comparable even when the
        # loader re-sorted the cells' local vertex order
        sets_ok = in_range and got_keys == ref_keys and sorted(gidx) == sorted(f for f, _ in ref)
        ctx.check("boundary-facet-sets", sets_ok,
                  mech=(RESORT_MECH if resorted and base in MESHIO_LIKE else f"boundary-set:{fmt}:{cls}"), name=name,
                  kind=tags.kinds.get("b:" + name), expected=sorted(f for f, _ in ref)[:40], got=sorted(gidx)[:40],
                  **info)
        if not sets_ok:
            continue
        ref_pairs = geo_pairs(orig, [f for f, _ in ref], [o for _, o in ref])
        got_pairs = geo_pairs(loaded, gidx, gflags)
        has_flag1 = any(o for _, o in ref)
        if resorted and not has_flag1:
            continue   # an unoriented set promises no owner cell, and flag 0 names another cell after re-sorting
        # flags are relative to f2t, whose column order depends on the local vertex order: when the loader
        # re-sorted the cells only the owner cells are comparable, not the raw flags
        # (sorted pair lists, not dictionaries: a two-sided tag holds one facet with flag 0 and with flag 1)
        ori_ok = ref_pairs == got_pairs and (resorted or sorted(zip(gidx, gflags)) == sorted(ref))
        if ori_ok and len(set(gidx)) < len(gidx):
            ctx.reached("two-sided-oriented-tag-loaded")

        def ori_mech(ref=ref, gidx=gidx, gflags=gflags, has_flag1=has_flag1):
            lost = has_flag1 and not any(gflags)
            if base == "npz" and lost:
                return "orientation-dropped:npz"
            if base in ("dict", "json") and lost:
                return "orientation-dropped:dict-json"
            if resorted:
                return RESORT_MECH   # (stored raw flags name other cells after re-sorting: any format)
            if base in MESHIO_LIKE:
                model = a9_model(orig, ref)
                if model is not None and model == sorted(zip(gidx, gflags)):
                    return "decode-pairs-sorted-facets-with-unsorted-owner-cells"
            return f"orientation:{fmt}:{cls}"
        ctx.check("orientations", ori_ok, mech=ori_mech, name=name, kind=tags.kinds.get("b:" + name),
                  expected=sorted(ref)[:24], got=sorted(zip(gidx, gflags))[:24], **info)
    return True


def compare_data(ctx, fmt, ref_pd, ref_cd, out, exact=True, case=None):
    got_pd, got_cd = out
    for name, ref in ref_pd.items():
        got = None if got_pd is None else got_pd.get(name)
        if ref.dtype != np.float64 and ref.dtype != np.int64:
            ctx.reached("user-data-kind:" + ref.dtype.name)
        if got is None:
            ctx.check("point-data", False, mech=f"point-data-missing:{fmt}", name=name, format=fmt, case=case)
        elif exact or ref.dtype.kind in "iu":      # integers are printed exactly by every format
            got = np.asarray(got)
            ctx.check("point-data", got.shape == ref.shape and np.array_equal(got, ref), mech=f"point-data:{fmt}",
                      name=name, format=fmt, case=case, shapes=(ref.shape, got.shape))
        else:
            ctx.close("point-data", got, ref, rtol=1e-10, mech=f"point-data:{fmt}", name=name, format=fmt, case=case)
    for name, ref in ref_cd.items():
        got = None if got_cd is None else got_cd.get(name)
        if got is None or len(got) != 1:
            ctx.check("cell-data", False, mech=f"cell-data-missing:{fmt}", name=name, format=fmt, case=case)
        elif exact or ref[0].dtype.kind in "iu":
            g = np.asarray(got[0])
            ctx.check("cell-data", g.shape == ref[0].shape and np.array_equal(g, ref[0]), mech=f"cell-data:{fmt}",
                      name=name, format=fmt, case=case, shapes=(ref[0].shape, g.shape))
        else:
            ctx.close("cell-data", got[0], ref[0], rtol=1e-10, mech=f"cell-data:{fmt}", name=name, format=fmt,
                      case=case)


def user_data(rng, mesh, rng2=None):
    """Point data over all nodes (second-order nodes included) and cell data: scalars with extreme magnitudes,
    3-vectors, small integers; with `rng2` also float32, int32 and uint8 arrays."""
    nn, nt = mesh.p.shape[1], mesh.t.shape[1]
    mags = 10.0 ** rng.integers(-300, 300, size=nn)
    pd = {"u": rng.standard_normal(nn) * mags,
          "vec": rng.standard_normal((nn, 3)),
          "idx": rng.integers(-1000, 1000, size=nn)}
    pd["u"][rng.integers(nn)] = -0.0
    cd = {"c": [rng.standard_normal(nt) * np.pi],
          "cvec": [rng.standard_normal((nt, 3))],
          "mat": [rng.integers(0, 5, size=nt)]}
    if rng2 is not None:
        # narrower kinds a caller may hand in (single precision fields, material numbers as int32 / uint8); the
        # *values* have to come back (gmsh stores reals, VTK is big-endian: the dtype is the format's business).
        # No 2-vectors (legacy VTK pads them to 3) and no bool (meshio has no VTK type for it).
        def kinds(n):
            f32 = (rng2.standard_normal(n) * 10.0 ** rng2.integers(-30, 30, size=n)).astype(np.float32)
            i32 = rng2.integers(-2 ** 31, 2 ** 31, size=n).astype(np.int32)
            u8 = rng2.integers(0, 256, size=n).astype(np.uint8)
            for a, special in ((f32, [np.finfo(np.float32).max, np.finfo(np.float32).tiny, -0.0, 1e-45]),
                               (i32, [-2 ** 31, 2 ** 31 - 1]), (u8, [255, 0])):
                for v in special:
                    a[rng2.integers(n)] = v
            return f32, i32, u8, rng2.standard_normal((n, 3)).astype(np.float32)
        pd["f32"], pd["i32"], pd["u8"], pd["f32vec"] = kinds(nn)
        for nm, a in zip(("cf32", "ci32", "cu8", "cf32vec"), kinds(nt)):
            cd[nm] = [a]
    return pd, cd


# -------------------------------------------------------------------------------------------- one full cycle
def cycle_all(ctx, mesh, tags, case, formats=None, with_data=True, resorted_ok=False, nt_base=None):
    """Export `mesh` (already tagged) in every format, load it back, compare.  Returns nothing; records."""
    import skfem
    import skfem.io.json as sjson
    from skfem.io.meshio import from_meshio, to_meshio
    rng = ctx.rng("data")
    rng2 = ctx.rng("data-kinds")
    cls = type(mesh)
    order = G.order_of(mesh)
    before = snapshot(mesh)
    fmts = formats if formats is not None else ([f[0] for f in MESHIO_FORMATS] + OTHER_FORMATS)
    table = {f[0]: f for f in MESHIO_FORMATS + MESHIO_VARIANTS}
    kinds = tuple(sorted(set(tags.kinds.values()))) if tags is not None else ()
    nontrivial = nt_base

    def unchanged(fmt):
        after = snapshot(mesh)
        ctx.check("export-does-not-alter-mesh", after == before, mech=f"export-alters-mesh:{fmt}",
                  changed=lambda: [k for k in before if before[k] != after[k]], format=fmt, case=case)

    rot = _rotation(ctx)
    with tempfile.TemporaryDirectory(prefix="rv-c17-") as tmp:
        for pos, fmt in enumerate(fmts):
            ctx.reached("format:" + fmt.split("-")[0] if fmt in table else "format:" + fmt)
            loaded = None
            # how the caller names the file and whether it asks for the meshio attributes: the same file has to give
            # the same mesh through load(path, out=[...]), load(path) and load(pathlib.Path(path))
            load_mode = (ctx.k + pos + rot) % 3
            if fmt in table:
                _, ext, kw, exact = table[fmt]
                path = os.path.join(tmp, "m-" + fmt + ext)
                pd, cd = user_data(rng, mesh, rng2) if with_data else ({}, {})
                out = ["point_data", "cell_data"]
                save_path = pathlib.Path(path) if (ctx.k // 3 + pos + rot) % 2 else path
                try:
                    with quiet():
                        # the library adds its tag arrays to the dictionaries it is given: hand in copies
                        mesh.save(save_path, point_data={k: v.copy() for k, v in pd.items()} if pd else None,
                                  cell_data={k: [a.copy() for a in v] for k, v in cd.items()} if cd else None,
                                  **kw)
                        if save_path is not path:
                            ctx.reached("save-pathlib-path")
                        unchanged(fmt)
                        loader = skfem.Mesh if ctx.k % 2 == 0 else cls     # classmethod: the class must not matter
                        if load_mode == 0:
                            loaded = loader.load(path, out=out)
                        else:
                            loaded = loader.load(path if load_mode == 1 else pathlib.Path(path))
                            ctx.reached("load-without-out")
                            if load_mode == 2:
                                ctx.reached("load-pathlib-path")
                            if with_data:
                                loader.load(path, out=out)       # user data are only handed out through `out`
                except Exception as e:
                    if _is_vtk_blank_refusal(e):
                        ctx.drop("vtk-refuses-blank-in-field-name")
                        continue
                    if kw.get("encode_point_data") and _is_point_encoding_length_error(e, mesh):
                        ctx.check("export-succeeds", False, mech="encode-point-data-counts-vertices-not-nodes",
                                  error=repr(e)[:200], format=fmt, case=case)
                        continue
                    raise
                ctx.ok("export-succeeds")
                if with_data:
                    compare_data(ctx, fmt, pd, cd, out, exact=exact, case=case)
                compare(ctx, fmt, mesh, tags, loaded, exact_p=exact, resorted_ok=resorted_ok, case=case)
            elif fmt == "meshio-object":
                pd, cd = user_data(rng, mesh, rng2) if with_data else ({}, {})
                out = ["point_data", "cell_data"]
                with quiet():
                    mio = to_meshio(mesh, {k: v.copy() for k, v in pd.items()} if pd else None,
                                    {k: [a.copy() for a in v] for k, v in cd.items()} if cd else None)
                    unchanged(fmt)
                    if load_mode == 0:
                        loaded = from_meshio(mio, out=out)
                    else:
                        loaded = from_meshio(mio)
                        ctx.reached("from_meshio-without-out")
                        if with_data:
                            from_meshio(mio, out=out)
                if with_data:
                    compare_data(ctx, fmt, pd, cd, out, case=case)
                compare(ctx, fmt, mesh, tags, loaded, resorted_ok=resorted_ok, case=case)
            elif fmt == "npz":
                path = os.path.join(tmp, "m.npz")
                mesh.save_npz(path)
                unchanged(fmt)
                loaded = cls.load_npz(path)
                compare(ctx, fmt, mesh, tags, loaded, resorted_ok=resorted_ok, case=case)
            elif fmt == "dict":
                if order != 1:
                    continue   # statement: dictionary/JSON form for first-order meshes
                d = mesh.to_dict()
                unchanged(fmt)
                loaded = cls.from_dict(d)
                compare(ctx, fmt, mesh, tags, loaded, resorted_ok=resorted_ok, case=case)
            elif fmt == "json":
                if order != 1:
                    continue
                path = os.path.join(tmp, "m.json")
                sjson.to_file(mesh, path)
                unchanged(fmt)
                loaded = sjson.from_file(path)
                compare(ctx, fmt, mesh, tags, loaded, resorted_ok=resorted_ok, case=case)
            else:
                raise ValueError(fmt)
            if nontrivial:
                ctx.nontrivial(cls.__name__, fmt, kinds)


_ROT = {"case": None, "n": 0}


def _rotation(ctx):
    """Number of cycles already run inside the current case (a pure function of the case: reset per case), used to
    rotate the call variants over the formats also in directed cases that run many cycles under one index."""
    key = (ctx.seed, ctx.family, ctx.k)
    if _ROT["case"] != key:
        _ROT["case"], _ROT["n"] = key, 0
    else:
        _ROT["n"] += 1
    return _ROT["n"]


def chain(ctx, mesh, tags, case, hops):
    """The loaded mesh is a mesh like any other: export what was loaded in the next format, load again, ... and
    hold every link of the chain against the *original* (a loader that leaves the mesh in a state the next exporter
    mishandles - tag dtypes, cached entities, oriented arrays - shows up at the second hop)."""
    import skfem
    import skfem.io.json as sjson
    from skfem.io.meshio import from_meshio, to_meshio
    rng = ctx.rng("chain")
    order = G.order_of(mesh)
    table = {f[0]: f for f in MESHIO_FORMATS + MESHIO_VARIANTS}
    pool = ([f[0] for f in MESHIO_FORMATS] + ["meshio-object", "npz"] + (["dict", "json"] if order == 1 else [])
            + [MESHIO_VARIANTS[int(rng.integers(len(MESHIO_VARIANTS)))][0]])
    seq = [pool[i] for i in rng.permutation(len(pool))[:hops]]
    cur, exact = mesh, True
    with tempfile.TemporaryDirectory(prefix="rv-c17c-") as tmp:
        for hop, fmt in enumerate(seq):
            before = snapshot(cur)
            if fmt in table:
                _, ext, kw, ex = table[fmt]
                path = os.path.join(tmp, f"c{hop}{ext}")
                try:
                    with quiet():
                        cur.save(path, **kw)
                        nxt = skfem.Mesh.load(path)
                except Exception as e:
                    if _is_vtk_blank_refusal(e):
                        ctx.drop("vtk-refuses-blank-in-field-name")
                        continue
                    raise
                exact = exact and ex
            elif fmt == "meshio-object":
                with quiet():
                    nxt = from_meshio(to_meshio(cur))
            elif fmt == "npz":
                path = os.path.join(tmp, f"c{hop}.npz")
                cur.save_npz(path)
                nxt = type(cur).load_npz(path)
            elif fmt == "dict":
                nxt = type(cur).from_dict(cur.to_dict())
            else:
                path = os.path.join(tmp, f"c{hop}.json")
                sjson.to_file(cur, path)
                nxt = sjson.from_file(pathlib.Path(path))
            if hop:
                # (the first hop is what cycle_all does)
                after = snapshot(cur)
                ctx.check("export-does-not-alter-mesh", after == before, mech=f"export-alters-loaded-mesh:{fmt}",
                          changed=lambda: [k for k in before if before[k] != after[k]], format=fmt, case=case)
            label = ">".join(["chain"] * bool(hop) + [fmt])
            nviol = sum(m["violations"] for m in ctx.monitors.values())
            if not compare(ctx, label, mesh, tags, nxt, exact_p=exact, case=dict(case, chain=seq[:hop + 1])):
                break
            if sum(m["violations"] for m in ctx.monitors.values()) > nviol:
                break          # a link that is already wrong: do not blame the formats after it
            if hop:
                ctx.reached("chain-hop-" + str(min(hop + 1, 3)) + ("" if hop < 2 else "+"))
                ctx.reached("chain-into:" + fmt.split("-")[0])
            cur = nxt


def _is_point_encoding_length_error(e, mesh):
    """Mesh._encode_point_data sizes its indicators by the number of *vertices*; a second-order mesh has more
    nodes than vertices and meshio rejects the short arrays."""
    return (isinstance(e, ValueError) and "len(points)" in str(e) and "skfem:" in str(e)
            and mesh.p.shape[1] > int(np.max(mesh.t)) + 1)


def _is_vtk_blank_refusal(e):
    return type(e).__name__ == "WriteError" and "spaces in field names" in str(e)


def nontrivial_of(ctx, mesh, tags):
    """NT rule: an interior facet tagged with flag 1, or two facets of one tag with the same owner cell."""
    f2t = np.asarray(mesh.f2t)
    flag1 = share = False
    for name, pairs in tags.bnd.items():
        owners = [int(f2t[o, f]) for f, o in pairs]
        if any(o == 1 and f2t[1, f] != -1 for f, o in pairs):
            flag1 = True
        if len(set(owners)) < len(owners):
            share = True
        kinds = {bool(f2t[1, f] == -1) for f, _ in pairs}
        if kinds == {True, False}:
            ctx.reached("boundary-and-interior-facets-in-one-tag")
        if len({f for f, _ in pairs}) < len(pairs) and len(set(pairs)) == len(pairs):
            ctx.reached("two-sided-oriented-tag")
    if flag1:
        ctx.reached("interior-facet-flag-1")
    if share:
        ctx.reached("two-tagged-facets-share-owner-cell")
    cells = [c for v in tags.sub.values() for c in v]
    if len(set(cells)) < len(cells):
        ctx.reached("several-subdomains-share-cell")
    return flag1 or share


# ------------------------------------------------------------------------------------------------- families
def transform_coordinates(rng, mesh):
    """Irrational scaling / large offsets so that every mantissa bit of the coordinates is significant."""
    mode = int(rng.integers(5))
    p = np.asarray(mesh.doflocs)
    if mode == 0:
        return mesh, "dyadic"
    if mode == 1:
        q, how = p * np.pi + np.e, "pi*p+e"
    elif mode == 2:
        q, how = p / 3.0 + 1.0e3, "p/3+1e3"
    elif mode == 3:
        q, how = p * (2.0 ** -10 / 7.0) - 1.0 / 3.0, "p*2^-10/7-1/3"
    else:
        q, how = p * 1.0e6 * np.sqrt(2.0) - 12345.678, "p*1e6*sqrt2-12345.678"
    if rng.random() < 0.3:
        # mirror one axis: zeros become -0.0 (the sign bit has to survive too)
        q = q * np.where(np.arange(q.shape[0]) == 0, -1.0, 1.0)[:, None]
        how += ",mirrored"
    return replace(mesh, doflocs=np.ascontiguousarray(q)), how


def random_case(kind):
    def fn(ctx, k):
        rng = ctx.rng()
        mc = G.first_order(rng, kind, renum=bool(k % 5))
        if k % 7 == 3 and mc.mesh.t.shape[1] <= 120:
            # a few hundred cells: more than 127/255 cells and facets, several tagged facets per cell
            mc = G.MeshCase(mc.mesh.refined(1), kind, 1, dict(mc.desc, refined=1), affine_cells=mc.affine_cells,
                            planar_faces=mc.planar_faces)
            ctx.reached("more-than-127-cells", int(mc.mesh.t.shape[1] > 127))
        order = 1 + (k % 2)
        if order == 2:
            mc = G.second_order(rng, mc, curved=bool((k // 2) % 3))
            if not mc.straight:
                ctx.reached("second-order-curved")
        mesh, how = transform_coordinates(rng, mc.mesh)
        if kind == "hex":
            ctx.reached("hex-permutation")
        tags = random_tags(rng, mesh)
        if tags.only:
            ctx.reached("tags:" + tags.only)
        tagged = tags.apply(mesh)
        if rng.random() < 0.5:
            tagged.doflocs.setflags(write=False)
            tagged.t.setflags(write=False)
        case = dict(mc.desc, coords=how, tags=sorted(set(tags.kinds.values())))
        fmts = [f[0] for f in MESHIO_FORMATS] + OTHER_FORMATS
        fmts.append(MESHIO_VARIANTS[k % len(MESHIO_VARIANTS)][0])
        nt = nontrivial_of(ctx, tagged, tags)
        cycle_all(ctx, tagged, tags, case, formats=fmts, nt_base=nt)
        chain(ctx, tagged, tags, case, hops=ctx.scale(3, 4))
        ctx.sample({"mesh": type(tagged).__name__, "case": case, "cells": int(mesh.t.shape[1]),
                    "subdomains": {n: len(v) for n, v in tags.sub.items()},
                    "boundaries": {n: {"facets": len(v), "flag1": sum(o for _, o in v)} for n, v in tags.bnd.items()},
                    "formats": fmts}, per_family=1)
    return fn


def _interface_mesh(kind, order):
    import skfem
    base = {"tri": skfem.MeshTri1().refined(2), "quad": skfem.MeshQuad1().refined(2),
            "tet": skfem.MeshTet1().refined(1), "hex": skfem.MeshHex1().refined(1)}[kind]
    return base if order == 1 else G.mesh_class(kind, 2).from_mesh(base)


def directed(ctx, k):
    """Hand-written situations, one per index (see `DIRECTED`)."""
    name, fn = DIRECTED[k]
    fn(ctx, name)


def d_interface_alternating(ctx, name):
    # the witness of DESIGN Appendix A9: an interior interface x = 1/2 with alternating flags
    for kind in ("tri", "quad", "tet", "hex"):
        for order in (1, 2):
            mesh = _interface_mesh(kind, order)
            f = np.asarray(mesh.facets_satisfying(lambda x: np.isclose(x[0], 0.5)))
            flags = np.arange(f.size) % 2
            tags = Tags()
            tags.add_bnd("iface", f.astype(np.int32), flags, "ori-alternating")
            tags.add_bnd("iface_rev", f[::-1].astype(np.int64), 1 - flags[::-1], "ori-alternating-reversed")
            tags.add_sub("lefthalf", np.asarray(mesh.elements_satisfying(lambda x: x[0] < 0.5)), "sub-half")
            tagged = tags.apply(mesh)
            nt = nontrivial_of(ctx, tagged, tags)
            cycle_all(ctx, tagged, tags, {"directed": name, "kind": kind, "order": order}, with_data=False, nt_base=nt)


def d_all_interior(ctx, name):
    # every interior facet tagged: all flag 1 / all flag 0 / random; every cell owns several tagged facets
    rng = ctx.rng()
    for kind in ("tri", "quad", "tet", "hex"):
        mc = G.first_order(rng, kind)
        mesh = mc.mesh
        interior, boundary = facet_classes(mesh)
        tags = Tags()
        tags.add_bnd("ones", interior.astype(np.int32), np.ones(interior.size, dtype=int), "ori-all-one")
        tags.add_bnd("zeros", interior.astype(np.int32), np.zeros(interior.size, dtype=int), "ori-all-zero")
        tags.add_bnd("rnd", interior[::-1].astype(np.int64), rng.integers(0, 2, size=interior.size),
                     "ori-all-interior")
        tags.add_bnd("everything", np.arange(mesh.facets.shape[1], dtype=np.int32), None, "bnd-all-facets")
        tags.add_sub("all", np.arange(mesh.t.shape[1], dtype=np.int32), "sub-all")
        tagged = tags.apply(mesh)
        nt = nontrivial_of(ctx, tagged, tags)
        cycle_all(ctx, tagged, tags, dict(mc.desc, directed=name), with_data=False, nt_base=nt)


def d_names(ctx, name):
    # tag names a caller may choose; a format may refuse a name (legacy VTK: blanks) but not change it
    import skfem
    mesh = skfem.MeshTri1().refined(2)
    for group in (["with space", "two  blanks "], ["a:b", "a:c", "skfem:s:z"], ["b_x", "s_y", "doflocs", "t", "p"],
                  ["", "é-ü", "x/y", "100%", "UP", "up"]):
        tags = Tags()
        for i, nm in enumerate(group):
            tags.add_sub(nm, np.array([i, i + 8, 7], dtype=np.int32), "sub-named")
            tags.add_bnd(nm, np.array([i, 2 * i + 1], dtype=np.int32), None, "bnd-named")
        tagged = tags.apply(mesh)
        cycle_all(ctx, tagged, tags, {"directed": name, "names": group}, with_data=False)
        # the same names on *oriented* interior tags: the name also travels through 'o_' + name (npz),
        # orientations[name] (dict/json) and the bit mask 'skfem:b:<name>' whose decoding yields the flags
        interior, _ = facet_classes(mesh)
        tags = Tags()
        for i, nm in enumerate(group):
            sel = interior[[i, (5 * i + 7) % interior.size, interior.size - 1 - i]]
            tags.add_bnd(nm, sel.astype(np.int32), np.array([1, i % 2, 1 - i % 2]), "ori-named")
            tags.add_sub(nm, np.array([i, i + 8, 7], dtype=np.int32), "sub-named")
        # (plus one plain tag whose name looks like the stored orientation of another one)
        if "o_" + group[0] not in group:
            tags.add_bnd("o_" + group[0], np.array([0, 3], dtype=np.int32), None, "bnd-named")
        tagged = tags.apply(mesh)
        if nontrivial_of(ctx, tagged, tags):
            ctx.reached("hostile-name-oriented")
        cycle_all(ctx, tagged, tags, {"directed": name, "names": group, "oriented": True}, with_data=False)
        chain(ctx, tagged, tags, {"directed": name, "names": group, "oriented": True}, hops=4)


def d_empty_and_none(ctx, name):
    # no tags at all; empty tags only; default tags
    for kind in ("tri", "quad", "tet", "hex"):
        for order in (1, 2):
            mesh = _interface_mesh(kind, order)
            cycle_all(ctx, mesh, Tags(), {"directed": name, "kind": kind, "order": order, "tags": "none"})
            tags = Tags()
            tags.add_sub("nothing", np.array([], dtype=np.int64), "sub-empty")
            tags.add_bnd("nowhere", np.array([], dtype=np.int32), None, "bnd-empty")
            cycle_all(ctx, tags.apply(mesh), tags, {"directed": name, "kind": kind, "order": order, "tags": "empty"},
                      with_data=False)
            # empty dictionaries rather than None
            m0 = mesh.with_boundaries({}).with_subdomains({})
            if m0.boundaries is not None and len(m0.boundaries) == 0:
                ctx.reached("empty-tag-dictionaries")
            cycle_all(ctx, m0, Tags(), {"directed": name, "kind": kind, "order": order, "tags": "{}"},
                      with_data=False)
            chain(ctx, m0, Tags(), {"directed": name, "kind": kind, "order": order, "tags": "{}"}, hops=3)
        for order in (1, 2):
            # one cell only: no interior facet at all
            # (init_refdom of the second-order classes carries no high-order nodes: not a valid mesh)
            m1 = G.mesh_class(kind, 1).init_refdom()
            m1 = m1 if order == 1 else G.mesh_class(kind, 2).from_mesh(m1)
            tags = Tags()
            tags.add_sub("only", np.array([0], dtype=np.int32), "sub-all")
            tags.add_bnd("some", np.array([0, m1.facets.shape[1] - 1], dtype=np.int32), None, "bnd-boundary")
            cycle_all(ctx, tags.apply(m1), tags, {"directed": name, "kind": kind, "order": order, "tags": "refdom"},
                      with_data=False)
        m = _interface_mesh(kind, 1).with_defaults()
        tags = Tags()
        for nm, arr in m.boundaries.items():
            tags.add_bnd(nm, arr, None, "bnd-defaults")
        cycle_all(ctx, m, tags, {"directed": name, "kind": kind, "tags": "with_defaults"}, with_data=False)


def d_tri_oriented(ctx, name):
    # MeshTri1.oriented(): sort_t=False, columns not ascending; tags must survive the re-sorting loader
    rng = ctx.rng()
    mc = G.tri_mesh(rng, style="jitter")
    mesh = mc.mesh.oriented()
    if np.array_equal(np.sort(mesh.t, axis=0), mesh.t):
        raise Skip("oriented mesh happens to be sorted")
    tags = random_tags(rng, mesh)
    tagged = tags.apply(mesh)
    nt = nontrivial_of(ctx, tagged, tags)
    cycle_all(ctx, tagged, tags, dict(mc.desc, directed=name), resorted_ok=True, nt_base=nt)


def d_closed_interfaces(ctx, name):
    # oriented closed interfaces around subdomains (both sides), the documented use of orientation
    for kind in ("tri", "quad", "tet", "hex"):
        for order in (1, 2):
            mesh = _interface_mesh(kind, order)
            inner = np.asarray(mesh.elements_satisfying(
                lambda x: np.max(np.abs(x - 0.5), axis=0) < (0.26 if kind in ("tri", "quad") else 0.45)))
            if inner.size == 0 or inner.size == mesh.t.shape[1]:
                inner = np.arange(mesh.t.shape[1] // 2)
            tags = Tags()
            tags.add_sub("core", inner, "sub-core")
            for nm, flip in (("core_out", False), ("core_in", True)):
                ob = mesh.facets_around(inner, flip=flip)
                keep = np.asarray(mesh.f2t)[1, np.asarray(ob)] != -1
                tags.add_bnd(nm, np.asarray(ob)[keep], np.asarray(ob.ori)[keep], "ori-around")
            # both sides of the interface in one tag: every interface facet once with flag 0 and once with flag 1
            # (plus the domain boundary once): the encoder sets a bit in both neighbours, the decoder has to hand
            # the facet out twice
            rest = np.setdiff1d(np.arange(mesh.t.shape[1]), inner)
            oa, ob = mesh.facets_around(inner), mesh.facets_around(rest)
            tags.add_bnd("both_sides", np.concatenate([np.asarray(oa), np.asarray(ob)]),
                         np.concatenate([np.asarray(oa.ori), np.asarray(ob.ori)]), "ori-two-sided")
            interior, _ = facet_classes(mesh)
            tags.add_bnd("all_twice", np.concatenate([interior, interior[::-1]]).astype(np.int32),
                         np.concatenate([np.zeros(interior.size, dtype=int), np.ones(interior.size, dtype=int)]),
                         "ori-two-sided")
            tagged = tags.apply(mesh)
            nt = nontrivial_of(ctx, tagged, tags)
            cycle_all(ctx, tagged, tags, {"directed": name, "kind": kind, "order": order}, with_data=False,
                      nt_base=nt)


def d_variants(ctx, name):
    # every file variant on every class once (quick tier sees each variant on few classes only)
    rng = ctx.rng()
    for kind in ("tri", "quad", "tet", "hex"):
        for order in (1, 2):
            mc = G.first_order(rng, kind)
            if order == 2:
                mc = G.second_order(rng, mc, curved=True)
            mesh, how = transform_coordinates(rng, mc.mesh)
            tags = random_tags(rng, mesh, rich=False)
            tagged = tags.apply(mesh)
            nt = nontrivial_of(ctx, tagged, tags)
            cycle_all(ctx, tagged, tags, dict(mc.desc, directed=name, coords=how),
                      formats=[f[0] for f in MESHIO_VARIANTS], nt_base=nt)


DIRECTED = [("interface-alternating-flags", d_interface_alternating), ("all-interior-facets", d_all_interior),
            ("tag-names", d_names), ("no-tags-empty-tags-default-tags", d_empty_and_none),
            ("tri1-oriented-sort_t-false", d_tri_oriented), ("closed-interfaces", d_closed_interfaces),
            ("file-variants", d_variants)]


def docs_meshes(ctx, k):
    """Every mesh shipped under docs/examples/meshes, loaded by the library (tags from gmsh physical groups,
    oriented interfaces from cell sets), then exported and re-loaded in every format."""
    import glob
    import skfem
    import skfem.io.json as sjson
    from ..engine import REPO
    files = sorted(glob.glob(os.path.join(REPO, G.DOCS_MESHES, "*")))
    if not files:
        return
    if ctx.thorough:                   # quick: one case does all; thorough: one file per case index
        if k >= len(files):
            return
        todo = [files[k]]
    else:
        todo = files
    for f in todo:
        base = os.path.basename(f)
        try:
            with quiet():
                m = sjson.from_file(f) if f.endswith(".json") else skfem.Mesh.load(f)
        except Exception:
            ctx.drop("docs-mesh-unreadable")
            continue
        if type(m).__name__ not in ("MeshTri1", "MeshQuad1", "MeshTet1", "MeshHex1", "MeshTri2", "MeshQuad2",
                                    "MeshTet2", "MeshHex2"):
            ctx.drop("docs-mesh-class-outside-statement")
            continue
        if m.t.shape[1] > 20000:
            ctx.drop("docs-mesh-too-large")
            continue
        tags = Tags()
        f2t = np.asarray(m.f2t)
        skip = False
        for nm, arr in (m.subdomains or {}).items():
            a = np.asarray(arr)
            if a.size and (a.min() < 0 or a.max() >= m.t.shape[1] or len(set(a.tolist())) != a.size):
                # junk read from a foreign file (e.g. 'gmsh:bounding_entities' = [-2, 3] in annulus.msh): not a set of
                # cells, outside the statement (the import of foreign files is not judged here)
                skip = True
            tags.add_sub(nm, a, "docs-subdomain")
        for nm, arr in (m.boundaries or {}).items():
            ori = getattr(arr, "ori", None)
            a = np.asarray(arr)
            if ori is not None and np.any((np.asarray(ori) == 1) & (f2t[1, a] == -1)):
                skip = True    # flag 1 on a boundary facet: outside the statement
            if len(set(a.tolist())) != a.size:
                skip = True    # not a set
            tags.add_bnd(nm, a, None if ori is None else np.asarray(ori), "docs-boundary" + ("" if ori is None else
                                                                                               "-oriented"))
        if skip:
            ctx.drop("docs-mesh-tags-outside-statement")
            continue
        nt = nontrivial_of(ctx, m, tags)
        cycle_all(ctx, m, tags, {"docs": base}, with_data=False, nt_base=True if nt else None)
        ctx.reached("docs-meshes-cycled")
        ctx.sample({"docs": base, "mesh": type(m).__name__, "cells": int(m.t.shape[1]),
                    "subdomains": {n: len(v) for n, v in tags.sub.items()},
                    "boundaries": {n: {"facets": len(v), "flag1": sum(o for _, o in v)} for n, v in tags.bnd.items()}},
                   per_family=2)


FAMILIES = [Family("rt-" + kd, random_case(kd), quick=q, thorough=th, budget={"quick": 40, "thorough": 500})
            for kd, q, th in (("tri", 200, 8000), ("quad", 200, 8000), ("tet", 170, 6800), ("hex", 170, 6800))]
FAMILIES.append(Family("directed", directed, len(DIRECTED), len(DIRECTED), budget={"quick": 60, "thorough": 120}))
FAMILIES.append(Family("docs-meshes", docs_meshes, 1, 40, budget={"quick": 60, "thorough": 300}))
