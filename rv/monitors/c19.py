"""C19 Vector, composite and block structures agree with their components.

Relational oracles (two executions the property says must agree) plus the dense per-cell reference of C01:
 (a) split + component interpolation == whole interpolation (value and derivative fields);
 (b) coupled assembly permuted by split_indices == separately assembled component blocks (component bases
     from split_bases and Form.block), == bmat of the blocks;
 (c) asm over a partition of the mesh into cell subsets == assembly on the whole mesh; asm over lists of
     bases sums; COOData.__add__;
 (d) elemental data: tolocal() are genuine per-cell matrices (the same reshape applied to the row and column
     index arrays shows one axis indexing test DOFs, the other trial DOFs of that cell) equal to the harness'
     own per-cell matrices, fromlocal(tolocal()) == id, inverse() inverts each, dense == sparse, dot(x) == A x;
 (e) CompositeBasis of component bases == basis of the composite element (up to the documented DOF order), in the
     spellings CompositeBasis(*b), b0 * b1, cb.split(x); f0 @ f1 (shared DOF numbers) against the signed sum of blocks;
 (f) asm over the PRODUCT of two lists of bases (the two sides of the interior facets) with w.idx, helpers.jump,
     to=list, raw callables, lists against single bases == weighted sums of ordinary two-basis assemblies; Functional,
     LinearForm and TrilinearForm over lists of bases;
 (g) the block clause for ElementVector (any number of components) and nested splits of vector x scalar composites;
     LinearForm.block;
 (h) elemental data of linear forms (per-cell vectors), functionals (per-cell numbers, 0-tensor) and trilinear forms
     (own einsum on <= 3 cells), bmat over elemental-data / 1-D entries; COOData.dot for vectors that are not float64
     and for complex data;
 (i) second-order (curved) and wedge meshes; tolocal(basis=fb) on subsets of boundary facets and on interior facets
     (a facet is added to every cell that has it), asm over a partition of a facet set;
 (j) adding elemental data of DIFFERENT data types (float64, complex128, float32, int64, complex64 as produced by
     Form(dtype=...); functionals real / complex) in both orders, with + and with sum() over lists starting with every
     type, second operand on the boundary facets / a cell subset / the same cells: toarray, tocsr, todefault, dot of the
     sum against the harness' own scatter-add of the operands in double precision and against the sum of the operands'
     own conversions;
 (k) the splitting clauses (a) and the block clause (b) on FACET bases of composite / vector elements with P0 / DG
     components: boundary, oriented sets of interior facets (facets_around with and without flip, a named oriented
     interface, facets_satisfying(normal=)) with both orientation flags present, InteriorFacetBasis side 0 / 1; a
     probe with the flags reversed shows that the fields do differ between the two cells of the flag-1 facets.
"""
from __future__ import annotations

import numpy as np

from ..engine import Family, Skip
from ..gen import elements as EL
from ..gen import meshes as G
from .c01 import enumerate_ops, apply_op, as_tuple

PID = "C19"
RULE = ("random meshes x composite elements of 2-3 components with different nodal/edge/facet/interior layouts, vector "
        "wrappers, Vector x scalar composites x coupling integrands drawn per component pair x random coefficient vectors x "
        "random partitions of the cells / of facet sets x rectangular trial/test pairs x first-order, second-order (curved) "
        "and wedge meshes x linear / bilinear / trilinear forms and functionals x products of basis lists with w.idx x "
        "vector data types of COOData.dot x ordered pairs / triples of data types of added elemental data x facet bases over "
        "the boundary, oriented interior interfaces (both flags) and either side of the interior facets; "
        "distinct key = (component layout, operation, "
        "mesh class); non-trivial iff the components differ in >= 1 entity count or trial != test size")
TRACK = ["skfem.element.element_vector:ElementVector.gbasis", "skfem.element.element_composite:ElementComposite._deduce_bfun",
         "skfem.assembly.basis.abstract_basis:AbstractBasis.split_indices", "skfem.assembly.basis.abstract_basis:AbstractBasis.split_bases",
         "skfem.assembly.basis.abstract_basis:AbstractBasis.split", "skfem.assembly:asm",
         "skfem.assembly.form.coo_data:COOData.tolocal", "skfem.assembly.form.coo_data:COOData.fromlocal",
         "skfem.assembly.form.coo_data:COOData.inverse", "skfem.assembly.form.coo_data:COOData.__add__",
         "skfem.assembly.form.coo_data:COOData.dot", "skfem.assembly.form.form:Form.block", "skfem.utils:bmat",
         "skfem.assembly.basis.composite_basis:CompositeBasis.element_dofs"]
REQUIRED_MONITORS = ["component-interpolation-equals-whole", "split-indices-partition", "coupled-equals-blocks",
                     "form-block-equals-block", "bmat-equals-coupled", "bmat-block-offsets", "partition-sum-equals-whole",
                     "coo-add", "tolocal-index-roles", "tolocal-equals-own-local-matrices", "fromlocal-roundtrip",
                     "inverse-inverts-local", "dense-equals-sparse", "dot-equals-matvec", "compositebasis-equals-composite-element",
                     "split-on-restricted-basis", "asm-product-equals-weighted-sum",
                     "linear-elemental-data", "functional-elemental-data", "trilinear-elemental-data"]
REQUIRED_REACH = ["rectangular-local", "coo-dot-rectangular", "blocks-of-very-different-magnitude", "vector-element", "composite-3-components", "3d-composite", "facet-tolocal", "asm-list-with-dof-array-keyword",
                  "vector-components-differ-from-dimension", "coo-dot-non-float64-vector", "coo-dot-complex-data",
                  "asm-product-of-two-lists", "asm-raw-callable", "asm-list-functional",
                  "vector-element-blocks", "vector-element-blocks-components-differ-from-dimension", "nested-split",
                  "linear-elemental-data", "functional-elemental-data", "trilinear-elemental-data", "bmat-of-elemental-data",
                  "compositebasis-mul-spelling", "compositebasis-matmul-spelling", "linear-form-block",
                  "second-order-mesh", "wedge-mesh", "facet-tolocal:boundary-subset", "facet-tolocal:interior-subset", "facet-partition",
                  # adding elemental data of different data types
                  "coo-add:left-operand-of-narrower-dtype", "coo-add:right-operand-of-narrower-dtype", "coo-add:real-plus-complex",
                  "coo-add:complex-plus-real", "coo-add:sum-of-list-of-mixed-dtypes", "coo-add:mixed-dtypes:bilinear",
                  "coo-add:mixed-dtypes:linear", "coo-add:mixed-dtypes:functional", "coo-add:second-operand-on-boundary-facets",
                  "coo-add:second-operand-on-cell-subset",
                  # splitting on facet bases
                  "split-facet:boundary", "split-facet:facets-around", "split-facet:facets-around-flip",
                  "split-facet:named-oriented-interface", "split-facet:facets-satisfying-normal", "split-facet:interior-side0",
                  "split-facet:interior-side1", "split-facet:interior-oriented-side1", "split-facet:both-orientation-flags-present",
                  "split-facet:trace-differs-between-the-two-cells-of-flag-1-facets", "split-facet:vector-element",
                  "split-facet:composite-element", "split-facet:3d", "split-facet:nested-split", "blocks-on-oriented-facet-basis"]


def field_parts(f):
    out = {"value": np.array(f)}
    for nm in ("grad", "div", "curl", "hess"):
        v = getattr(f, nm, None)
        if v is not None:
            out[nm] = np.asarray(v)
    return out


def make_coupling(rng, ub, vb):
    """Term list sum_k c_k * op_k(u) * op'_k(v) over (trial component, test component) pairs, covering every pair."""
    ops_u, ops_v = enumerate_ops(ub), enumerate_ops(vb)
    ncu, ncv = len(ub.basis[0]), len(vb.basis[0])
    terms = []
    for cu in range(ncu):
        for cv in range(ncv):
            ou = [o for o in ops_u if o[0] == cu]
            ov = [o for o in ops_v if o[0] == cv]
            terms.append((float(rng.integers(1, 9)) / 4, ou[int(rng.integers(len(ou)))], ov[int(rng.integers(len(ov)))]))
    return terms, ncu, ncv


def bil_from(terms, ncu, only=None):
    def form(*args):
        w = args[-1]
        u, v = args[:ncu], args[ncu:-1]
        out = 0
        for c, ou, ov in terms:
            if only is not None and (ou[0], ov[0]) != only:
                continue
            out = out + c * (w.x[0] + 2.0) * apply_op(u, ou) * apply_op(v, ov)
        return out
    return form


def with_arity(fn, n):
    """Wrap a *args callable into one with n explicit positional parameters (Form.block and asm() inspect the
    signature of the form)."""
    names = ", ".join(f"a{i}" for i in range(n))
    return eval(f"lambda {names}: fn({names})", {"fn": fn})


def pick(ctx, rng, kind, k, recs=None):
    if recs is not None:
        return pick_mesh(ctx, rng, kind, k, recs[k % len(recs)])
    recs = EL.composites(kind)
    base = [r for r in EL.of_kind(kind) if r.family == "h1" and not r.skeleton and r.mesh_req == "any"
            and r.name in ("ElementLineP2", "ElementTriP2", "ElementTriP1B", "ElementTriCR", "ElementQuad2", "ElementQuadS2",
                           "ElementTetP2", "ElementTetCR", "ElementHex2", "ElementHexS2", "ElementTriP3")]
    recs = recs + [EL.vector(r) for r in base if kind != "line"]
    # vector elements whose number of components differs from the dimension of the mesh
    odd = {"line": 2, "tri": 3, "quad": 1, "tet": 2, "hex": 2}
    recs = recs + [EL.vector(r, odd[kind]) for r in base[:2] if kind in odd]
    if kind == "wedge":
        w1 = EL.by_name("ElementWedge1")
        recs = [EL.vector(w1), EL.composite(w1, w1), EL.vector(w1, 2), EL.composite(EL.vector(w1), w1)]
    return pick_mesh(ctx, rng, kind, k, recs[k % len(recs)])


def pick_mesh(ctx, rng, kind, k, rec):
    mc = G.first_order(rng, kind)
    tries = 0
    cap = ctx.scale(16, 40) if kind in ("tet", "hex") else ctx.scale(24, 60)
    while mc.mesh.t.shape[1] > cap and tries < 8:
        tries += 1
        mc = G.first_order(ctx.rng("again", tries), kind)
    mesh = mc.mesh
    if mesh.t.shape[1] > cap:
        S = np.sort(rng.choice(mesh.t.shape[1], size=cap, replace=False))
        p, t = G.clean(np.asarray(mesh.p), np.asarray(mesh.t)[:, S].astype(np.int64))
        mesh = type(mesh)(p, t)
    # second-order (possibly curved) geometry: every clause of the property is a relation between two executions
    # on the same mesh and holds there as well
    if k % 5 == 4 and kind in ("tri", "quad", "tet") and rec.mesh_req == "any":
        mc = G.second_order(rng, G.MeshCase(mesh, kind, 1, dict(mc.desc), affine_cells=mc.affine_cells, straight=mc.straight,
                                            planar_faces=mc.planar_faces))
        mesh = mc.mesh
        ctx.reached("second-order-mesh")
    if kind == "wedge":
        ctx.reached("wedge-mesh")
    return rec, mc, mesh


def layout_key(elem):
    if hasattr(elem, "elems"):
        return tuple((type(e).__name__, e.nodal_dofs, e.edge_dofs, e.facet_dofs, e.interior_dofs) for e in elem.elems)
    return (type(elem).__name__, elem.nodal_dofs, elem.edge_dofs, elem.facet_dofs, elem.interior_dofs)


def split_interp(ctx, k, kind):
    import skfem
    rng = ctx.rng()
    rec, mc, mesh = pick(ctx, rng, kind, k)
    elem = rec.make()
    basis = skfem.CellBasis(mesh, elem)
    x = rng.standard_normal(basis.N)
    tag = dict(elem=rec.name, mesh=type(mesh).__name__, desc=mc.desc)
    is_vec = rec.name.startswith("Vector(")
    if is_vec:
        ctx.reached("vector-element")
        if elem.dim != mesh.dim():
            ctx.reached("vector-components-differ-from-dimension")
    if hasattr(elem, "elems") and len(elem.elems) >= 3:
        ctx.reached("composite-3-components")
    if hasattr(elem, "elems") and mc.dim == 3:
        ctx.reached("3d-composite")
    ixs = basis.split_indices()
    allix = np.concatenate(ixs)
    ctx.check("split-indices-partition", np.array_equal(np.sort(allix), np.arange(basis.N)), mech=f"split-indices:{rec.name.split('(')[0]}",
              sizes=[len(i) for i in ixs], N=int(basis.N), **tag)
    parts = basis.split(x)
    whole = basis.interpolate(x)
    for ci, (xi, bi) in enumerate(parts):
        ctx.check("split-indices-partition", np.array_equal(xi, x[ixs[ci]]) and bi.N == len(xi), mech="split-vector",
                  component=ci, **tag)
        fi = bi.interpolate(xi)
        if is_vec:
            ref = {nm: v[ci] for nm, v in field_parts(whole).items()}
        else:
            ref = field_parts(as_tuple(whole)[ci])
        got = field_parts(fi) if not isinstance(fi, tuple) else field_parts(fi[0])
        for nm, r in ref.items():
            if nm not in got:
                ctx.check("component-interpolation-equals-whole", False, mech=f"component-field-missing:{nm}", component=ci, **tag)
                continue
            ctx.close("component-interpolation-equals-whole", got[nm], r, rtol=1e-11,
                      scale=float(np.abs(r).max()) + float(np.abs(x).max()) * 1e-3,
                      mech=f"component-interp:{rec.name.split('(')[0]}", component=ci, field=nm, **tag)
    # nested split: a vector component of a composite splits again into its scalar components
    if hasattr(elem, "elems"):
        for ci, (xi, bi) in enumerate(parts):
            if type(bi.elem).__name__ != "ElementVector":
                continue
            wv = field_parts(as_tuple(whole)[ci])
            for cj, (xij, bij) in enumerate(bi.split(xi)):
                fij = field_parts(bij.interpolate(xij))
                for nm in ("value", "grad"):
                    ctx.close("component-interpolation-equals-whole", fij[nm], wv[nm][cj], rtol=1e-11,
                              scale=float(np.abs(wv[nm][cj]).max()) + float(np.abs(x).max()) * 1e-3,
                              mech="component-interp:nested-split", component=(ci, cj), field=nm, **tag)
            ctx.reached("nested-split")
    ctx.nontrivial(str(layout_key(elem)), "split-interpolate", type(mesh).__name__)
    # the same on a basis restricted to a cell subset / on a facet basis: split must stay on that domain
    nt = mesh.t.shape[1]
    S = np.sort(rng.choice(nt, size=max(1, nt // 2), replace=False)).astype(np.int32)
    variants = [("cell-subset", lambda e: skfem.CellBasis(mesh, e, elements=S))]
    if rec.facet_basis and kind not in ("line", "wedge"):
        variants.append(("boundary-facets", lambda e: skfem.FacetBasis(mesh, e)))
    for vname, mk in variants:
        b2 = mk(rec.make())
        w2 = as_tuple(b2.interpolate(x))
        ok = True
        detail = None
        try:
            for ci, (xi, bi) in enumerate(b2.split(x)):
                fi = bi.interpolate(xi)
                fi = fi[0] if isinstance(fi, tuple) else fi
                ref = field_parts(w2[0])["value"][ci] if is_vec else field_parts(w2[ci])["value"]
                g = np.array(fi)
                if g.shape != ref.shape or np.abs(g - ref).max() > 1e-10 * (np.abs(ref).max() + 1e-300):
                    ok, detail = False, dict(component=ci, got_shape=g.shape, want_shape=ref.shape)
                    break
        except Exception as e:
            ok, detail = False, dict(error=repr(e)[:200])
        ctx.check("split-on-restricted-basis", ok, mech="split_bases-ignores-restriction-of-the-basis", variant=vname,
                  detail=detail, **tag)
    ctx.sample(dict(tag, N=int(basis.N), components=len(parts)), per_family=1)


PK = {"line": ("ElementLineP0", "ElementLineP1", "ElementLineP2"), "tri": ("ElementTriP0", "ElementTriP1", "ElementTriP2"),
      "quad": ("ElementQuad0", "ElementQuad1", "ElementQuad2"), "tet": ("ElementTetP0", "ElementTetP1", "ElementTetP2"),
      "hex": ("ElementHex0", "ElementHex1", "ElementHex2")}


def facet_recs(kind):
    """Composite and vector elements for the facet-basis workloads: the composites of the shared registry (different
    entity layouts, H(div)/H(curl) components, vector x scalar) alternating with wrappers that have cellwise constant
    / discontinuous components (their VALUES jump across an interior facet; of the continuous components the gradients
    do)."""
    p0, p1, p2 = (EL.by_name(n) for n in PK[kind])
    extra = [EL.composite(EL.vector(p2, 2 if kind == "line" else None), p0), EL.composite(p1, EL.dg(p1)), EL.vector(EL.dg(p1), 2 if kind == "line" else None),
             EL.composite(EL.dg(p2), p0, p1), EL.vector(p0, 2), EL.vector(p2, 2 if kind == "line" else None),
             EL.vector(p1, {"line": 3, "tri": 3, "quad": 1, "tet": 2, "hex": 2}[kind])]
    reg = [r for r in EL.composites(kind) if r.facet_basis]
    out = []
    for i in range(max(len(extra), len(reg))):
        out += extra[i:i + 1] + reg[i:i + 1]
    return out


def compare_split(ctx, basis, x, is_vec, variant, tag):
    """basis.split(x): every component interpolated through its own component basis equals the corresponding rows of
    the whole interpolated at the same quadrature points, field by field (value, grad, div, curl, hess); nested for the
    vector components of a composite."""
    M = "component-interpolation-equals-whole"
    whole = basis.interpolate(x)
    parts = basis.split(x)
    ncomp = basis.elem.dim if is_vec else len(as_tuple(whole))
    ctx.check(M, len(parts) == ncomp, mech=f"split-facet:{variant}:number-of-components", got=len(parts), want=ncomp, **tag)
    if len(parts) != ncomp:
        return
    xs = float(np.abs(x).max()) * 1e-3
    for ci, (xi, bi) in enumerate(parts):
        ctx.check(M, type(bi) is type(basis) and bi.nelems == basis.nelems and np.array_equal(np.asarray(bi.find), np.asarray(basis.find)),
                  mech=f"split-facet:{variant}:component-basis-on-other-facets", component=ci, **tag)
        fi = bi.interpolate(xi)
        ref = {nm: v[ci] for nm, v in field_parts(whole).items()} if is_vec else field_parts(as_tuple(whole)[ci])
        got = field_parts(fi[0] if isinstance(fi, tuple) else fi)
        for nm, r in ref.items():
            if nm not in got:
                ctx.check(M, False, mech=f"component-field-missing:{nm}", component=ci, variant=variant, **tag)
                continue
            ctx.close(M, got[nm], r, rtol=1e-11, scale=float(np.abs(r).max()) + xs,
                      mech=f"split-facet:{variant}:component-interp:{'Vector' if is_vec else 'Composite'}", component=ci, field=nm, **tag)
        if not is_vec and type(bi.elem).__name__ == "ElementVector":
            wv = field_parts(as_tuple(whole)[ci])
            for cj, (xij, bij) in enumerate(bi.split(xi)):
                fij = field_parts(bij.interpolate(xij))
                for nm in ("value", "grad"):
                    ctx.close(M, fij[nm], wv[nm][cj], rtol=1e-11, scale=float(np.abs(wv[nm][cj]).max()) + xs,
                              mech=f"split-facet:{variant}:component-interp:nested-split", component=(ci, cj), field=nm, **tag)
            ctx.reached("split-facet:nested-split")


def split_facets(ctx, k, kind):
    """The splitting clauses on FACET bases of composite / vector elements: over the boundary, over oriented sets of
    interior facets (mesh.facets_around(cells) with and without flip, a named oriented interface with both orientation
    flags, facets_satisfying(..., normal=n)) and over the interior facets from side 0 and side 1.  The trace is taken
    from ONE of the two cells of a facet, and discontinuous quantities (values of P0 / DG components, gradients of the
    continuous ones) tell the two apart: the component bases of split()/split_bases() must sit on the same cells as the
    whole.  Then the block clause on one of the oriented bases."""
    import skfem
    from skfem.generic_utils import OrientedBoundary
    rng = ctx.rng()
    rec, mc, mesh = pick(ctx, rng, kind, k, recs=facet_recs(kind))
    is_vec = rec.name.startswith("Vector(")
    f2t = np.asarray(mesh.f2t)
    nt = mesh.t.shape[1]
    interior = np.nonzero(f2t[1] != -1)[0].astype(np.int32)
    tag = dict(elem=rec.name, mesh=type(mesh).__name__, desc=mc.desc)
    variants = [("boundary", mesh, skfem.FacetBasis, None, {})]
    if interior.size >= 2:
        S = np.sort(rng.choice(nt, size=int(rng.integers(max(1, nt // 3), max(2, (2 * nt) // 3 + 1))), replace=False)).astype(np.int32)
        variants.append(("facets-around", mesh, skfem.FacetBasis, mesh.facets_around(S), {}))
        obf = mesh.facets_around(S, flip=True)                  # on the boundary of the mesh there is no outer cell
        keep = f2t[1, np.asarray(obf)] != -1
        if keep.any():
            variants.append(("facets-around-flip", mesh, skfem.FacetBasis,
                             OrientedBoundary(np.asarray(obf)[keep], np.asarray(obf.ori)[keep]), {}))
        F = np.sort(rng.choice(interior, size=max(2, (2 * interior.size) // 3), replace=False)).astype(np.int32)
        ori = rng.integers(0, 2, size=F.size)
        two = rng.permutation(F.size)[:2]
        ori[two[0]], ori[two[1]] = 0, 1                          # both flags are present
        m2 = mesh.with_boundaries({"ifc": OrientedBoundary(F, ori)})
        if (np.array_equal(np.asarray(m2.f2t), f2t) and np.array_equal(np.asarray(m2.t), np.asarray(mesh.t))
                and np.array_equal(np.asarray(m2.boundaries["ifc"]), F) and np.array_equal(np.asarray(m2.boundaries["ifc"].ori), ori)):
            variants.append(("named-oriented-interface", m2, skfem.FacetBasis, "ifc", {}))
        else:
            ctx.drop("with_boundaries-renumbered-the-mesh")
        mask = np.zeros(f2t.shape[1], dtype=bool)
        mask[interior] = True
        variants.append(("facets-satisfying-normal", mesh, skfem.FacetBasis,
                         mesh.facets_satisfying(lambda mid: mask, normal=rng.standard_normal(mesh.dim())), {}))
        variants.append(("interior-side0", mesh, skfem.InteriorFacetBasis, None, {"side": 0}))
        variants.append(("interior-side1", mesh, skfem.InteriorFacetBasis, None, {"side": 1}))
        variants.append(("interior-oriented-side1", mesh, skfem.InteriorFacetBasis, OrientedBoundary(F, ori), {"side": 1}))
    else:
        ctx.drop("fewer-than-two-interior-facets")
    oriented = []
    for vname, m, cls, facets, kw in variants:
        b = cls(m, rec.make(), **kw) if facets is None else cls(m, rec.make(), facets=facets, **kw)
        if b.nelems == 0:
            ctx.drop("empty-facet-set:" + vname)
            continue
        x = rng.standard_normal(b.N)
        compare_split(ctx, b, x, is_vec, vname, tag)
        ctx.reached("split-facet:" + vname)
        ctx.reached("split-facet:" + ("vector-element" if is_vec else "composite-element"))
        if mesh.dim() == 3:
            ctx.reached("split-facet:3d")
        find = b.find
        if type(find).__name__ == "OrientedBoundary" and getattr(find, "ori", None) is not None:
            o = np.asarray(find.ori)
            both = bool((o == 1).any() and (o == 0).any())
            if both:
                ctx.reached("split-facet:both-orientation-flags-present")
            oriented.append((vname, b))
            # is the input able to tell the two cells of a facet apart?  The whole interpolated with the flags reversed
            # (the other cell of every facet) must differ on the facets with flag 1
            if (f2t[1, np.asarray(find)] != -1).all() and (o == 1).any():
                other = cls(m, rec.make(), facets=OrientedBoundary(np.asarray(find), 1 - o), quadrature=b.quadrature, **kw)
                w0, w1 = as_tuple(b.interpolate(x)), as_tuple(other.interpolate(x))
                differs = False
                for f0, f1 in zip(w0, w1):
                    p0, p1 = field_parts(f0), field_parts(f1)
                    for nm in p0:
                        a0, a1 = p0[nm][..., o == 1, :], p1[nm][..., o == 1, :]
                        if np.abs(a0 - a1).max() > 1e-6 * (np.abs(a0).max() + 1e-300):
                            differs = True
                if differs:
                    ctx.reached("split-facet:trace-differs-between-the-two-cells-of-flag-1-facets")
        elif vname == "interior-side1":
            oriented.append((vname, b))
    # the block clause on one of the bases that do not sit on the first cell of every facet
    if oriented:
        vname, b = oriented[k % len(oriented)]
        where = ":facet-basis:" + vname
        if is_vec:
            vector_blocks(ctx, rng, rec, mc, b.mesh, basis=b, where=where)
        else:
            terms, ncu, ncv = make_coupling(rng, b, b)
            A = skfem.BilinearForm(bil_from(terms, ncu)).assemble(b).toarray()
            ixs, sb = b.split_indices(), b.split_bases()
            scale = float(np.abs(A).max()) + 1e-300
            for cu in range(ncu):
                for cv in range(ncv):
                    sub = [(c, (0,) + ou[1:], (0,) + ov[1:]) for c, ou, ov in terms if (ou[0], ov[0]) == (cu, cv)]
                    B = skfem.BilinearForm(bil_from(sub, 1)).assemble(sb[cu], sb[cv])
                    ctx.close("coupled-equals-blocks", A[np.ix_(ixs[cv], ixs[cu])], B.toarray(), rtol=1e-11, scale=scale,
                              mech="coupled-block:Composite" + where, trial=cu, test=cv, **tag)
        ctx.reached("blocks-on-oriented-facet-basis")
    ctx.nontrivial(str(layout_key(rec.make())), "split-facets", type(mesh).__name__)
    ctx.sample(dict(tag, variants=[v[0] for v in variants]), per_family=1)


def vector_blocks(ctx, rng, rec, mc, mesh, basis=None, where=""):
    """The block clause for ElementVector(e, n): the form sum_ij c_ij u_i v_j + d_ij d_a u_i d_b v_j coupled over the
    components equals, under split_indices, the n x n block matrix of scalar forms on the split_bases.  `basis`: a
    ready-made (facet) basis of the vector element instead of the cell basis on the whole mesh."""
    import skfem
    if basis is None:
        basis = skfem.CellBasis(mesh, rec.make())
    elem = basis.elem
    n = elem.dim
    gd = mesh.dim()
    c = rng.integers(1, 9, size=(n, n)) / 4.0 * rng.choice([-1.0, 1.0], size=(n, n))
    d = rng.integers(1, 9, size=(n, n)) / 4.0
    ia, ib = rng.integers(0, gd, size=(n, n)), rng.integers(0, gd, size=(n, n))

    def coupled(u, v, w):
        out = 0
        for i in range(n):          # trial component
            for j in range(n):      # test component
                out = out + (w.x[0] + 2.0) * (c[i, j] * u[i] * v[j] + d[i, j] * u.grad[i][ia[i, j]] * v.grad[j][ib[i, j]])
        return out
    A = skfem.BilinearForm(coupled).assemble(basis).toarray()
    ixs = basis.split_indices()
    sb = basis.split_bases()
    tag = dict(elem=rec.name, mesh=type(mesh).__name__, desc=mc.desc)
    ok = len(ixs) == n and len(sb) == n
    ctx.check("split-indices-partition", ok and np.array_equal(np.sort(np.concatenate(ixs)), np.arange(basis.N)),
              mech="split-indices:Vector" + where, sizes=[len(i) for i in ixs], N=int(basis.N), **tag)
    if not ok:
        return
    scale = float(np.abs(A).max()) + 1e-300
    blocks = [[None] * n for _ in range(n)]
    for i in range(n):
        for j in range(n):
            B = skfem.BilinearForm(lambda u, v, w: (w.x[0] + 2.0) * (c[i, j] * u * v + d[i, j] * u.grad[ia[i, j]] * v.grad[ib[i, j]])
                                   ).assemble(sb[i], sb[j])
            blocks[j][i] = B
            ctx.close("coupled-equals-blocks", A[np.ix_(ixs[j], ixs[i])], B.toarray(), rtol=1e-11, scale=scale,
                      mech="coupled-block:Vector" + where, trial=i, test=j, **tag)
    M = skfem.utils.bmat(blocks, "csr")
    perm = np.concatenate(ixs)
    ctx.close("bmat-equals-coupled", M.toarray(), A[np.ix_(perm, perm)], rtol=1e-11, scale=scale, mech="bmat:Vector" + where, **tag)
    want = np.cumsum([len(i) for i in ixs])[:-1].tolist()
    ctx.check("bmat-block-offsets", list(M.blocks) == want, mech="bmat-blocks-attribute", got=list(M.blocks), want=want, **tag)
    if where:
        ctx.reached("vector-element-blocks" + where)
    else:
        ctx.reached("vector-element-blocks")
        if n != gd:
            ctx.reached("vector-element-blocks-components-differ-from-dimension")
    ctx.nontrivial(str(layout_key(elem)) + f"x{n}", "coupled-blocks" + where, type(mesh).__name__)


def coupled_blocks(ctx, k, kind):
    import skfem
    rng = ctx.rng()
    rec, mc, mesh = pick(ctx, rng, kind, k)
    if rec.name.startswith("Vector("):
        return vector_blocks(ctx, rng, rec, mc, mesh)
    elem = rec.make()
    basis = skfem.CellBasis(mesh, elem)
    terms, ncu, ncv = make_coupling(rng, basis, basis)
    A = skfem.BilinearForm(bil_from(terms, ncu)).assemble(basis).toarray()
    ixs = basis.split_indices()
    sb = basis.split_bases()
    tag = dict(elem=rec.name, mesh=type(mesh).__name__, desc=mc.desc)
    blocks = [[None] * ncu for _ in range(ncv)]
    scale = float(np.abs(A).max()) + 1e-300
    for cu in range(ncu):
        for cv in range(ncv):
            # the (test cv, trial cu) block assembled on the component bases with the single term of that pair
            sub = [(c, (0,) + ou[1:], (0,) + ov[1:]) for c, ou, ov in terms if (ou[0], ov[0]) == (cu, cv)]
            B = skfem.BilinearForm(bil_from(sub, 1)).assemble(sb[cu], sb[cv])
            blocks[cv][cu] = B
            ctx.close("coupled-equals-blocks", A[np.ix_(ixs[cv], ixs[cu])], B.toarray(), rtol=1e-11, scale=scale,
                      mech=f"coupled-block:{rec.name.split('(')[0]}", trial=cu, test=cv, **tag)
            # Form.block on the coupled form
            # Form.block zeroes the other components with zero fields *of the given component's type*, so it is
            # meaningful only when all components have the same tensor order and fields (scalar H1 components)
            if all(type(e).__mro__[1].__name__ == "ElementH1" for e in elem.elems):
                Bb = skfem.BilinearForm(with_arity(bil_from(terms, ncu), 2 * ncu + 1)).block(cu, cv).assemble(sb[cu], sb[cv])
                ctx.close("form-block-equals-block", Bb.toarray(), B.toarray(), rtol=1e-12, scale=scale,
                          mech="form-block", trial=cu, test=cv, **tag)
    M = skfem.utils.bmat(blocks, "csr")
    perm = np.concatenate(ixs)
    ctx.close("bmat-equals-coupled", M.toarray(), A[np.ix_(perm, perm)], rtol=1e-11, scale=scale, mech="bmat", **tag)
    want = np.cumsum([len(i) for i in ixs])[:-1].tolist()
    ctx.check("bmat-block-offsets", list(M.blocks) == want, mech="bmat-blocks-attribute", got=list(M.blocks), want=want, **tag)
    # CompositeBasis of the component bases: same matrix up to the DOF order (component by component)
    try:
        cb = skfem.assembly.basis.composite_basis.CompositeBasis(*sb)
        Ac = skfem.BilinearForm(bil_from(terms, ncu)).assemble(cb).toarray()
        ctx.close("compositebasis-equals-composite-element", Ac, A[np.ix_(perm, perm)], rtol=1e-11, scale=scale,
                  mech="compositebasis", **tag)
        xs = rng.standard_normal(cb.N)
        fc = cb.interpolate(xs)
        xfull = np.zeros(basis.N)
        xfull[perm] = xs
        fw = as_tuple(basis.interpolate(xfull))
        for ci in range(len(fw)):
            ctx.close("compositebasis-equals-composite-element", np.array(fc[ci]), np.array(fw[ci]), rtol=1e-11,
                      scale=float(np.abs(np.array(fw[ci])).max()) + 1e-3, mech="compositebasis-interpolate", component=ci, **tag)
        # cb.split(x): consecutive slices with the component bases
        sp_ = cb.split(xs)
        offs = np.concatenate([[0], np.cumsum([b.N for b in sb])])
        ok = len(sp_) == len(sb) and all(np.array_equal(xi, xs[offs[i]:offs[i + 1]]) and bi is sb[i] for i, (xi, bi) in enumerate(sp_))
        ctx.check("compositebasis-equals-composite-element", ok, mech="compositebasis-split", **tag)
        if ok:
            for ci, (xi, bi) in enumerate(sp_):
                fi = bi.interpolate(xi)
                ctx.close("compositebasis-equals-composite-element", np.array(fi), np.array(fc[ci]), rtol=1e-12,
                          scale=float(np.abs(np.array(fc[ci])).max()) + 1e-3, mech="compositebasis-split-interpolate", component=ci, **tag)
        # the operator spelling b0 * b1
        if len(sb) == 2:
            cb2 = sb[0] * sb[1]
            ok = type(cb2).__name__ == "CompositeBasis" and cb2.N == cb.N and not cb2.equal_dofnum
            ctx.check("compositebasis-equals-composite-element", ok, mech="compositebasis-mul-spelling:structure", **tag)
            if ok:
                Ac2 = skfem.BilinearForm(bil_from(terms, ncu)).assemble(cb2).toarray()
                ctx.close("compositebasis-equals-composite-element", Ac2, A[np.ix_(perm, perm)], rtol=1e-11, scale=scale,
                          mech="compositebasis-mul-spelling", **tag)
            ctx.reached("compositebasis-mul-spelling")
    except NotImplementedError:
        ctx.drop("compositebasis-not-implemented")
    # LinearForm.block(k) on the component basis == the rows of component k (zero fields stand in for the other
    # components: meaningful when all components have the same fields, as for Form.block above)
    if all(type(e).__mro__[1].__name__ == "ElementH1" for e in elem.elems):
        linfn = lambda *a: sum(c * (a[-1].x[0] + 2.0) * apply_op(a[:-1], ov) for c, ou, ov in terms)
        bfull = skfem.LinearForm(linfn).assemble(basis)
        for cv in range(ncv):
            bk = skfem.LinearForm(with_arity(linfn, ncv + 1)).block(cv).assemble(sb[cv])
            ctx.close("form-block-equals-block", bk, bfull[ixs[cv]], rtol=1e-12, scale=float(np.abs(bfull).max()) + 1e-300,
                      mech="linear-form-block", test=cv, **tag)
        ctx.reached("linear-form-block")
    ctx.nontrivial(str(layout_key(elem)), "coupled-blocks", type(mesh).__name__)


def partition_sum(ctx, k, kind):
    import skfem
    rng = ctx.rng()
    rec, mc, mesh = pick(ctx, rng, kind, k)
    elem = rec.make()
    basis = skfem.CellBasis(mesh, elem)
    terms, ncu, ncv = make_coupling(rng, basis, basis)
    form = skfem.BilinearForm(bil_from(terms, ncu))
    A = form.assemble(basis)
    nt = mesh.t.shape[1]
    nparts = int(rng.integers(2, 5))
    lab = rng.integers(0, nparts, size=nt)
    parts = [np.nonzero(lab == i)[0].astype(np.int32) for i in range(nparts)]
    parts = [p for p in parts if p.size]
    bases = [skfem.CellBasis(mesh, rec.make(), elements=p) for p in parts]
    tag = dict(elem=rec.name, mesh=type(mesh).__name__, desc=mc.desc, parts=[int(p.size) for p in parts])
    # one list of bases -> sum over the bases
    S1 = sum(form.assemble(b) for b in bases)
    scale = float(np.abs(A).max()) + 1e-300
    ctx.close("partition-sum-equals-whole", S1.toarray(), A.toarray(), rtol=1e-11, scale=scale, mech="partition-sum", **tag)
    S2 = skfem.asm(form, bases)
    ctx.close("partition-sum-equals-whole", S2.toarray(), A.toarray(), rtol=1e-11, scale=scale, mech="asm-list", **tag)
    lin = skfem.LinearForm(lambda *a: sum(apply_op(a[:-1], ov) * c for c, ou, ov in terms))
    b_whole = lin.assemble(basis)
    b_sum = skfem.asm(lin, bases)
    ctx.close("partition-sum-equals-whole", b_sum, b_whole, rtol=1e-11, scale=float(np.abs(b_whole).max()) + 1e-300,
              mech="asm-list-linear", **tag)
    # a coefficient vector passed as keyword parameter is interpolated on each basis of the list
    xc = rng.standard_normal(basis.N)

    def coef(w):
        f = w["c"]
        f = f[0] if isinstance(f, tuple) else f
        a = np.array(f)
        while a.ndim > 2:
            a = a[0]
        return a
    inner = bil_from(terms, ncu)
    formc = skfem.BilinearForm(lambda *a: (1.0 + coef(a[-1])) * inner(*a))
    Ac = formc.assemble(basis, c=xc)
    # equal halves: the silent case of a parameter interpolated once and reused
    half = nt // 2
    if half >= 1:
        perm = rng.permutation(nt)
        eq = [np.sort(perm[:half]).astype(np.int32), np.sort(perm[half:2 * half]).astype(np.int32)]
        rest = np.sort(perm[2 * half:]).astype(np.int32)
        blist = [skfem.CellBasis(mesh, rec.make(), elements=p) for p in eq + ([rest] if rest.size else [])]
        S3 = skfem.asm(formc, blist, c=xc)
        ctx.close("partition-sum-equals-whole", S3.toarray(), Ac.toarray(), rtol=1e-11, scale=float(np.abs(Ac).max()) + 1e-300,
                  mech="asm-list-with-coefficient-vector-keyword", **tag)
        ctx.reached("asm-list-with-dof-array-keyword")
    # a Functional over the list of bases: the integral over the whole mesh; with w.idx: the weighted sum of the parts
    def density(w):
        return (w.x[0] + 2.0) * w.h * (1.0 + coef(w)) ** 2
    func = skfem.Functional(density)
    whole = func.assemble(basis, c=xc)
    fsum = skfem.asm(func, bases, c=xc)
    parts_f = [func.assemble(b, c=xc) for b in bases]
    sF = float(np.sum(np.abs(parts_f))) + 1e-300
    ctx.close("partition-sum-equals-whole", fsum, whole, rtol=1e-11, scale=sF, mech="asm-list-functional", **tag)
    ctx.check("partition-sum-equals-whole", np.ndim(fsum) == 0, mech="asm-list-functional-not-scalar", shape=np.shape(fsum), **tag)
    wts = rng.integers(1, 9, size=len(bases)) / 4.0
    fw = skfem.asm(skfem.Functional(lambda w: wts[w.idx[0]] * density(w)), bases, c=xc)
    ctx.close("partition-sum-equals-whole", fw, float(np.dot(wts, parts_f)), rtol=1e-11, scale=sF * float(wts.max()),
              mech="asm-list-functional-idx", **tag)
    bw = skfem.asm(skfem.LinearForm(lambda *a: wts[a[-1].idx[0]] * lin.form(*a)), bases)
    ctx.close("partition-sum-equals-whole", bw, sum(wt * lin.assemble(b) for wt, b in zip(wts, bases)), rtol=1e-11,
              scale=float(np.abs(b_whole).max()) * float(wts.max()) + 1e-300, mech="asm-list-linear-idx", **tag)
    ctx.reached("asm-list-functional")
    # COOData addition
    c1, c2 = form.elemental(bases[0]), form.elemental(bases[-1])
    ctx.close("coo-add", (c1 + c2).todefault().toarray(), (c1.todefault() + c2.todefault()).toarray(), rtol=1e-12, scale=scale,
              mech="coo-add", **tag)
    ctx.check("coo-add", (0 + c1).todefault().shape == c1.todefault().shape, mech="coo-radd")
    ctx.nontrivial(str(layout_key(elem)), "partition", type(mesh).__name__)


def small_mesh(ctx, rng, kind, cap):
    """A mesh of the shared zoo with at most `cap` cells (a random subset of the cells of a larger one)."""
    mc = G.first_order(rng, kind)
    tries = 0
    while mc.mesh.t.shape[1] > cap and tries < 8:
        tries += 1
        mc = G.first_order(ctx.rng("again", tries), kind)
    mesh = mc.mesh
    if mesh.t.shape[1] > cap:
        S = np.sort(rng.choice(mesh.t.shape[1], size=cap, replace=False))
        p, t = G.clean(np.asarray(mesh.p), np.asarray(mesh.t)[:, S].astype(np.int64))
        mesh = type(mesh)(p, t)
    return mc, mesh


IDX_PAIRS = {"tri": [("ElementTriP2", "ElementTriP1"), ("ElementTriP1", "ElementTriP2"), ("ElementTriP1DG", "ElementTriP1"),
                     ("Vector(ElementTriP1)", "ElementTriP2"), ("ElementTriRT1", "ElementTriP1")],
             "quad": [("ElementQuad2", "ElementQuad1"), ("ElementQuad1", "ElementQuad1"), ("ElementQuad1", "Vector(ElementQuad1)")],
             "tet": [("ElementTetP2", "ElementTetP1"), ("ElementTetP1", "ElementTetP1"), ("ElementTetP1", "ElementTetN1")],
             "hex": [("ElementHex1", "ElementHex1"), ("ElementHex1", "ElementHex0")]}


def rec_of(name):
    if name.startswith("Vector("):
        return EL.vector(EL.by_name(name[len("Vector("):-1]))
    return EL.by_name(name)


def asm_product(ctx, k, kind):
    """asm(form, [trial bases], [test bases]): the sum over the PRODUCT of the two lists, each term receiving its
    position as w.idx = (index in the trial list, index in the test list).  Oracle: the sum over i, j of
    C[i, j] * (ordinary two-basis assembly of the index-free form on (trial_i, test_j))."""
    import skfem
    from skfem.helpers import jump
    rng = ctx.rng()
    un, vn = IDX_PAIRS[kind][k % len(IDX_PAIRS[kind])]
    ur, vr = rec_of(un), rec_of(vn)
    mc, mesh = small_mesh(ctx, rng, kind, ctx.scale(10, 30))
    if not np.any(np.asarray(mesh.f2t)[1] != -1):
        raise Skip("no-interior-facets")
    order = 2 * max(ur.make().maxdeg, vr.make().maxdeg)
    fbu = [skfem.InteriorFacetBasis(mesh, ur.make(), side=s, intorder=order) for s in (0, 1)]
    # the test bases share the quadrature (and facets, side) of the trial bases
    if k % 2:
        fbv = [b.with_element(vr.make()) for b in fbu]
    else:
        fbv = [skfem.InteriorFacetBasis(mesh, vr.make(), side=s, quadrature=fbu[0].quadrature) for s in (0, 1)]
    terms, ncu, ncv = make_coupling(rng, fbu[0], fbv[0])
    inner = bil_from(terms, ncu)
    C = rng.integers(1, 9, size=(2, 2)) / 4.0 * rng.choice([-1.0, 1.0], size=(2, 2))
    C[0, 1] = C[1, 0] + 0.5                         # never symmetric: idx[0] must index the trial list
    tag = dict(trial=un, test=vn, mesh=type(mesh).__name__, desc=mc.desc, C=C.tolist())
    plain = skfem.BilinearForm(inner)
    P = [[plain.assemble(fbu[i], fbv[j]).toarray() for j in (0, 1)] for i in (0, 1)]
    scale = max(float(np.abs(P[i][j]).max()) for i in (0, 1) for j in (0, 1)) * float(np.abs(C).max()) + 1e-300
    M = "asm-product-equals-weighted-sum"
    seen = []

    def with_idx(*a):
        w = a[-1]
        seen.append(tuple(w.idx))
        return C[w.idx[0], w.idx[1]] * inner(*a)
    form = skfem.BilinearForm(with_idx)
    got = skfem.asm(form, fbu, fbv)
    ref = sum(C[i, j] * P[i][j] for i in (0, 1) for j in (0, 1))
    ctx.close(M, got.toarray(), ref, rtol=1e-11, scale=scale, mech="asm-product:idx", **tag)
    ctx.check(M, set(seen) == {(0, 0), (0, 1), (1, 0), (1, 1)}, mech="asm-product:idx-values", seen=sorted(set(seen)), **tag)
    # to=list: the elemental data of every pair, in product order (trial index major)
    lst = skfem.asm(form, fbu, fbv, to=list)
    ok = len(lst) == 4
    ctx.check(M, ok, mech="asm-product:to-list-length", n=len(lst), **tag)
    if ok:
        for n, (i, j) in enumerate([(0, 0), (0, 1), (1, 0), (1, 1)]):
            ctx.close(M, lst[n].tocsr().toarray(), C[i, j] * P[i][j], rtol=1e-11, scale=scale, mech="asm-product:to-list", pair=(i, j), **tag)
    # a list against a single basis, a single basis against a list: the single one has index 0
    got = skfem.asm(form, fbu, fbv[1])
    ctx.close(M, got.toarray(), sum(C[i, 0] * P[i][1] for i in (0, 1)), rtol=1e-11, scale=scale, mech="asm-product:list-x-single", **tag)
    got = skfem.asm(form, fbu[1], fbv)
    ctx.close(M, got.toarray(), sum(C[0, j] * P[1][j] for j in (0, 1)), rtol=1e-11, scale=scale, mech="asm-product:single-x-list", **tag)
    # helpers.jump: every argument multiplied by (-1)^(its index)
    c0, ou, ov = terms[0]

    def jumpform(*a):
        w = a[-1]
        ju, jv = jump(w, apply_op(a[:ncu], ou), apply_op(a[ncu:-1], ov))
        return c0 * (w.x[0] + 2.0) * ju * jv
    J = skfem.asm(skfem.BilinearForm(jumpform), fbu, fbv).toarray()
    single = skfem.BilinearForm(bil_from([terms[0]], ncu))
    Pj = [[single.assemble(fbu[i], fbv[j]).toarray() for j in (0, 1)] for i in (0, 1)]
    refj = sum((-1.0) ** (i + j) * Pj[i][j] for i in (0, 1) for j in (0, 1))
    ctx.close(M, J, refj, rtol=1e-11, scale=max(float(np.abs(Pj[i][j]).max()) for i in (0, 1) for j in (0, 1)) + 1e-300,
              mech="asm-product:jump", **tag)
    ctx.reached("asm-product-of-two-lists")
    # f0 @ f1: a CompositeBasis whose components share the DOF numbers (no offsets, N = N of one side); the jump
    # form written with explicit components equals the same signed sum
    if ncu == 1 and ncv == 1:
        cbu, cbv = fbu[0] @ fbu[1], fbv[0] @ fbv[1]
        ok = bool(cbu.equal_dofnum) and cbu.N == fbu[0].N and cbv.N == fbv[0].N and cbu.Nbfun == 2 * fbu[0].Nbfun
        ctx.check("compositebasis-equals-composite-element", ok, mech="compositebasis-matmul-spelling:structure",
                  N=int(cbu.N), want=int(fbu[0].N), **tag)
        if ok:
            def explicit(u0, u1, v0, v1, w):
                return c0 * (w.x[0] + 2.0) * (apply_op(u0, ou) - apply_op(u1, ou)) * (apply_op(v0, ov) - apply_op(v1, ov))
            Je = skfem.BilinearForm(explicit).assemble(cbu, cbv).toarray()
            ctx.close("compositebasis-equals-composite-element", Je, refj, rtol=1e-11,
                      scale=max(float(np.abs(Pj[i][j]).max()) for i in (0, 1) for j in (0, 1)) + 1e-300,
                      mech="compositebasis-matmul-spelling", **tag)
        ctx.reached("compositebasis-matmul-spelling")
    # raw callables are wrapped by their number of positional parameters
    if ncu == 1 and ncv == 1:
        raw = skfem.asm(lambda u, v, w: C[w.idx[0], w.idx[1]] * inner(u, v, w), fbu, fbv)
        ctx.close(M, raw.toarray(), ref, rtol=1e-11, scale=scale, mech="asm-raw-callable:bilinear", **tag)
        d = np.array([1.5, -0.75])
        lv = skfem.asm(lambda v, w: d[w.idx[0]] * (w.x[0] + 2.0) * apply_op(v, ov), fbv)
        lref = sum(d[j] * skfem.LinearForm(lambda v, w: (w.x[0] + 2.0) * apply_op(v, ov)).assemble(fbv[j]) for j in (0, 1))
        ctx.close(M, lv, lref, rtol=1e-11, scale=float(np.abs(lref).max()) + 1e-300, mech="asm-raw-callable:linear", **tag)
        fv = skfem.asm(lambda w: d[w.idx[0]] * (w.x[0] + 2.0) * w.n[0] ** 2, fbu)
        fref = sum(d[i] * skfem.Functional(lambda w: (w.x[0] + 2.0) * w.n[0] ** 2).assemble(fbu[i]) for i in (0, 1))
        ctx.close(M, fv, fref, rtol=1e-11, scale=abs(float(fref)) + 1e-300, mech="asm-raw-callable:functional", **tag)
        ctx.reached("asm-raw-callable")
    ctx.nontrivial((un, vn), "asm-product", type(mesh).__name__)
    ctx.sample(dict(tag, facets=int(fbu[0].nelems)), per_family=1)


P1_OF = {"line": "ElementLineP1", "tri": "ElementTriP1", "quad": "ElementQuad1", "tet": "ElementTetP1", "hex": "ElementHex1",
         "wedge": "ElementWedge1"}


def other_elemental(ctx, rng, skfem, kind, mesh, ub, vb, terms, form, coo, tag):
    """Elemental data of linear forms, functionals and trilinear forms, and bmat over elemental-data entries."""
    import scipy.sparse as sp
    nt = mesh.t.shape[1]
    wx = np.array(vb.default_parameters()["x"])[0] + 2.0
    # ---- linear form: per-cell vectors
    lin = skfem.LinearForm(lambda *a: sum(c * (a[-1].x[0] + 2.0) * apply_op(a[:-1], ov) for c, ou, ov in terms))
    lcoo = lin.elemental(vb)
    own = np.zeros((nt, vb.Nbfun))
    for i in range(vb.Nbfun):
        own[:, i] = (sum(c * wx * apply_op(vb.basis[i], ov) for c, ou, ov in terms) * vb.dx).sum(axis=1)
    edv = np.asarray(vb.element_dofs)
    bown = np.zeros(vb.N)
    np.add.at(bown, edv.T, own)
    sL = float(np.abs(own).max()) + 1e-300
    sb = float(np.abs(own).sum()) + 1e-300
    M = "linear-elemental-data"
    loc = lcoo.tolocal()
    ok = tuple(lcoo.shape) == (vb.N,) and loc.shape == (nt, vb.Nbfun)
    ctx.check(M, ok, mech="linear-elemental:shapes", shape=tuple(lcoo.shape), local=loc.shape, **tag)
    if ok:
        R = np.moveaxis(lcoo.indices[0].reshape(tuple(lcoo.local_shape) + (-1,), order="C"), -1, 0)
        ctx.check(M, np.array_equal(R, edv.T), mech="linear-elemental:tolocal-index-roles", **tag)
        ctx.close(M, loc, own, rtol=1e-11, scale=sL, mech="linear-elemental:tolocal-values", **tag)
        back = lcoo.fromlocal(loc)
        ctx.check(M, np.array_equal(back.data, lcoo.data) and np.array_equal(back.indices, lcoo.indices),
                  mech="linear-elemental:fromlocal", **tag)
        ctx.close(M, lcoo.toarray(), bown, rtol=1e-12, scale=sb, mech="linear-elemental:toarray", **tag)
        ctx.close(M, lcoo.todefault(), lin.assemble(vb), rtol=1e-13, scale=sb, mech="linear-elemental:todefault-vs-assemble", **tag)
        half = np.arange(nt // 2, dtype=np.int32)
        if 0 < half.size:
            l1 = lin.elemental(vb.with_elements(half))
            two = l1 + lcoo
            ref = bown.copy()
            np.add.at(ref, edv.T[half], own[half])
            ctx.close(M, two.todefault(), ref, rtol=1e-12, scale=sb, mech="linear-elemental:add", **tag)
    ctx.reached("linear-elemental-data")
    # ---- functional: per-cell numbers, the 0-tensor elemental data
    M = "functional-elemental-data"
    func = skfem.Functional(lambda w: (w.x[0] + 2.0) * w.h)
    cellwise = func.elemental(ub)
    ownf = (np.array(ub.default_parameters()["x"])[0] + 2.0) * np.array(ub.default_parameters()["h"])
    ownf = (ownf * ub.dx).sum(axis=1)
    ctx.close(M, cellwise, ownf, rtol=1e-12, scale=float(np.abs(ownf).max()) + 1e-300, mech="functional:elemental", **tag)
    total = float(ownf.sum())
    fc = func.coo_data(ub)
    ctx.check(M, tuple(fc.shape) == () and np.ndim(fc.todefault()) == 0, mech="functional:coo-shape", shape=tuple(fc.shape), **tag)
    ctx.close(M, fc.todefault(), total, rtol=1e-12, scale=float(np.abs(ownf).sum()) + 1e-300, mech="functional:todefault", **tag)
    ctx.close(M, func.assemble(ub), total, rtol=1e-12, scale=float(np.abs(ownf).sum()) + 1e-300, mech="functional:assemble", **tag)
    ctx.close(M, (fc + fc + fc).todefault(), 3 * total, rtol=1e-12, scale=float(np.abs(ownf).sum()) + 1e-300, mech="functional:add", **tag)
    ctx.reached("functional-elemental-data")
    # ---- trilinear form on <= 3 cells of the P1-type element of the cell kind, against an own einsum
    M = "trilinear-elemental-data"
    cells = np.sort(rng.choice(nt, size=min(3, nt), replace=False)).astype(np.int32)
    tb = skfem.CellBasis(mesh, EL.by_name(P1_OF[kind]).make(), elements=cells)
    a = int(rng.integers(0, mesh.dim()))
    tri = skfem.TrilinearForm(lambda u, v, z, w: (w.x[0] + 2.0) * u * v.grad[a] * (z + 0.5 * z.grad[0]))
    tcoo = tri.elemental(tb)
    Nb, N = tb.Nbfun, tb.N
    PH = np.array([np.array(tb.basis[i][0]) for i in range(Nb)])                    # (Nb, nc, nq)
    GR = np.array([np.asarray(tb.basis[i][0].grad) for i in range(Nb)])              # (Nb, dim, nc, nq)
    cf = (np.array(tb.default_parameters()["x"])[0] + 2.0) * tb.dx
    # L[c, k(u), j(v), i(z)]
    L = np.einsum("cq,kcq,jcq,icq->ckji", cf, PH, GR[:, a], PH + 0.5 * GR[:, 0])
    ed = np.asarray(tb.element_dofs)                                               # (Nb, nc)
    T = np.zeros((N, N, N))
    for k in range(Nb):
        for j in range(Nb):
            for i in range(Nb):
                np.add.at(T, (ed[i], ed[j], ed[k]), L[:, k, j, i])                  # T[z, v, u]
    sT = float(np.abs(L).max()) + 1e-300
    tl = tcoo.tolocal()
    ok = tuple(tcoo.shape) == (N, N, N) and tl.shape == (len(cells), Nb, Nb, Nb)
    ctx.check(M, ok, mech="trilinear:shapes", shape=tuple(tcoo.shape), local=tl.shape, **tag)
    if ok:
        I = [np.moveaxis(tcoo.indices[r].reshape(tuple(tcoo.local_shape) + (-1,), order="C"), -1, 0) for r in range(3)]
        # every local tensor lives on the DOFs of its own cell; scattered by its own indices it is the global tensor
        own_cell = all(np.isin(I[r][c], ed[:, c]).all() for r in range(3) for c in range(len(cells)))
        ctx.check(M, own_cell, mech="trilinear:tolocal-not-per-cell", **tag)
        T2 = np.zeros((N, N, N))
        np.add.at(T2, (I[0], I[1], I[2]), tl)
        ctx.close(M, T2, T, rtol=1e-11, scale=sT, mech="trilinear:tolocal-values", **tag)
        # the local tensors are one of the axis arrangements of the own ones (which one is not promised)
        import itertools
        arr = [pm for pm in itertools.permutations((1, 2, 3)) if np.abs(np.transpose(L, (0,) + pm) - tl).max() <= 1e-11 * sT]
        ctx.check(M, len(arr) >= 1, mech="trilinear:tolocal-is-no-arrangement-of-the-cell-tensors", **tag)
        back = tcoo.fromlocal(tl)
        ctx.check(M, np.array_equal(back.data, tcoo.data), mech="trilinear:fromlocal", **tag)
        ctx.close(M, tcoo.toarray(), T, rtol=1e-11, scale=sT, mech="trilinear:toarray", **tag)
        out = tri.assemble(tb)
        ctx.close(M, np.asarray(out.toarray() if hasattr(out, "toarray") else out), T, rtol=1e-11, scale=sT,
                  mech="trilinear:assemble", **tag)
        # over a list of bases with w.idx: the weighted sum of the parts
        if len(cells) >= 2:
            tbs = [skfem.CellBasis(mesh, EL.by_name(P1_OF[kind]).make(), elements=cells[:1]),
                   skfem.CellBasis(mesh, EL.by_name(P1_OF[kind]).make(), elements=cells[1:])]
            d = np.array([1.5, -0.5])
            tw = skfem.asm(skfem.TrilinearForm(lambda u, v, z, w: d[w.idx[0]] * tri.form(u, v, z, w)), tbs)
            Tw = np.zeros((N, N, N))
            for k in range(Nb):
                for j in range(Nb):
                    for i in range(Nb):
                        np.add.at(Tw, (ed[i], ed[j], ed[k]), L[:, k, j, i] * np.where(np.arange(len(cells)) == 0, d[0], d[1]))
            ctx.close(M, tw.toarray(), Tw, rtol=1e-11, scale=sT * 1.5, mech="trilinear:asm-list-idx", **tag)
    ctx.reached("trilinear-elemental-data")
    # ---- bmat over elemental-data entries (COOData of bilinear and of linear forms, None)
    M = "bmat-equals-coupled"
    A = coo.tocsr()
    ncv = len(vb.basis[0])
    # the transposed form (trial <-> test), shape (ub.N, vb.N)
    At = skfem.BilinearForm(lambda *a: form.form(*a[ncv:-1], *a[:ncv], a[-1])).elemental(vb, ub)
    lu = skfem.LinearForm(lambda *a: (a[-1].x[0] + 2.0) * apply_op(a[:-1], terms[0][1])).elemental(ub)   # 1-D, length ub.N
    try:
        B1 = skfem.utils.bmat([[coo, None], [None, At]], "csr")
        ref = sp.bmat([[A, None], [None, A.T]], "csr")
        ctx.close(M, B1.toarray(), ref.toarray(), rtol=1e-12, scale=float(np.abs(ref).max()) + 1e-300, mech="bmat-of-elemental-data", **tag)
        ctx.check("bmat-block-offsets", list(B1.blocks) == [A.shape[1]], mech="bmat-of-elemental-data:blocks", got=list(B1.blocks), **tag)
        # a 1-D block is one row: [[A (vN x uN), None], [l_u (uN,), l_v (vN,)]]
        B2 = skfem.utils.bmat([[coo, None], [lu, lcoo]], "csr")
        ref = sp.bmat([[A, None], [sp.csr_matrix(lu.toarray()[None, :]), sp.csr_matrix(bown[None, :])]], "csr")
        ctx.close(M, B2.toarray(), ref.toarray(), rtol=1e-12, scale=float(np.abs(ref).max()) + 1e-300, mech="bmat-with-1d-blocks", **tag)
        ctx.check("bmat-block-offsets", list(B2.blocks) == [ub.N], mech="bmat-with-1d-blocks:blocks", got=list(B2.blocks), **tag)
        # the first column holds only the 1-D block: its width is the length of the vector
        B3 = skfem.utils.bmat([[None, coo], [lcoo, lu]], "csr")
        ctx.check("bmat-block-offsets", list(B3.blocks) == [vb.N] and B3.shape == (vb.N + 1, vb.N + ub.N),
                  mech="bmat-with-1d-blocks:blocks", got=list(B3.blocks), shape=B3.shape, **tag)
        ctx.reached("bmat-of-elemental-data")
    except (ValueError, TypeError) as e:
        ctx.check(M, False, mech="bmat-of-elemental-data:raises", error=repr(e)[:200], **tag)


def facet_subsets(ctx, rng, skfem, mesh, ur, fb_all, tag):
    """tolocal(basis=fb) for bases on a subset of the boundary facets and on interior facets, and asm over a
    partition of a facet set.  The library adds the matrix of a facet to *every* cell that has this facet (an
    interior facet to both neighbours): the own sum runs over the facets of each cell."""
    fform = skfem.BilinearForm(lambda u, v, w: (w.x[0] + 2.0) * sum_values(u, v))
    t2f = np.asarray(mesh.t2f)
    nt = mesh.t.shape[1]
    bnd = np.asarray(fb_all.find)
    interior = np.nonzero(np.asarray(mesh.f2t)[1] != -1)[0].astype(np.int32)
    sets = [("boundary-subset", skfem.FacetBasis, np.sort(rng.choice(bnd, size=max(1, bnd.size // 2), replace=False)).astype(np.int32))]
    if interior.size:
        sets.append(("interior-subset", skfem.InteriorFacetBasis,
                     np.sort(rng.choice(interior, size=max(1, (2 * interior.size) // 3), replace=False)).astype(np.int32)))
    for name, cls, F in sets:
        kw = {"side": int(rng.integers(2))} if cls is skfem.InteriorFacetBasis else {}
        fb = cls(mesh, ur.make(), facets=F, **kw)
        fcoo = fform.elemental(fb)
        floc = fcoo.tolocal()
        ok = floc.shape[0] == F.size and np.array_equal(np.asarray(fb.find), F)
        ctx.check("tolocal-equals-own-local-matrices", ok, mech="tolocal-facet-subset:shape", variant=name, shape=floc.shape, nf=int(F.size), **tag)
        if not ok:
            continue
        pos = {int(f): i for i, f in enumerate(F)}
        own = np.zeros((nt,) + floc.shape[1:])
        for c in range(nt):
            for l in range(t2f.shape[0]):
                i = pos.get(int(t2f[l, c]))
                if i is not None:
                    own[c] += floc[i]
        el = fcoo.tolocal(basis=fb)
        ctx.close("tolocal-equals-own-local-matrices", el, own, rtol=1e-12, scale=float(np.abs(own).max()) + 1e-300,
                  mech="tolocal-facet-sum:" + name, **tag)
        ctx.reached("facet-tolocal:" + name)
        # a partition of the facet set into 2-3 bases: asm over the list == the whole set
        if F.size >= 2:
            lab = rng.integers(0, 3, size=F.size)
            lab[0], lab[1] = 0, 1
            parts = [F[lab == i] for i in range(3) if np.any(lab == i)]
            bases = [cls(mesh, ur.make(), facets=P, **kw) for P in parts]
            whole = fform.assemble(fb).toarray()
            got = skfem.asm(fform, bases).toarray()
            ctx.close("partition-sum-equals-whole", got, whole, rtol=1e-12, scale=float(np.abs(whole).max()) + 1e-300,
                      mech="asm-list-facet-partition:" + name, parts=[int(P.size) for P in parts], **tag)
            ctx.reached("facet-partition")


LOCAL_PAIRS = {"line": [("ElementLineP2", "ElementLineP1"), ("ElementLineP1", "ElementLineP1"), ("ElementLineP1DG", "ElementLineP1DG")],
               "tri": [("ElementTriP2", "ElementTriP1"), ("ElementTriP1", "ElementTriP2"), ("ElementTriP1DG", "ElementTriP1DG"),
                       ("ElementTriRT1", "ElementTriP0"), ("ElementTriP2", "ElementTriP2")],
               "quad": [("ElementQuad2", "ElementQuad1"), ("ElementQuad1", "ElementQuad1"), ("ElementQuad1DG", "ElementQuad1DG")],
               "tet": [("ElementTetP2", "ElementTetP1"), ("ElementTetP1", "ElementTetP1"), ("ElementTetN1", "ElementTetRT1")],
               "hex": [("ElementHex1", "ElementHex0"), ("ElementHex1", "ElementHex1")],
               "wedge": [("ElementWedge1", "ElementWedge1")]}


def local_matrices(ctx, k, kind):
    """tolocal / fromlocal / inverse / dot / dense-sparse on square and rectangular elemental data."""
    import skfem
    rng = ctx.rng()
    pairs = LOCAL_PAIRS[kind]
    un, vn = pairs[k % len(pairs)]
    mc = G.first_order(rng, kind)
    tries = 0
    while mc.mesh.t.shape[1] > 30 and tries < 8:
        tries += 1
        mc = G.first_order(ctx.rng("again", tries), kind)
    mesh = mc.mesh
    if mesh.t.shape[1] > 30:
        raise Skip("mesh-too-large")
    ur, vr = EL.by_name(un), EL.by_name(vn)
    order = 2 * max(ur.make().maxdeg, vr.make().maxdeg)
    ub = skfem.CellBasis(mesh, ur.make(), intorder=order)
    vb = ub.with_element(vr.make()) if vn != un else ub
    terms, ncu, ncv = make_coupling(rng, ub, vb)
    form = skfem.BilinearForm(bil_from(terms, ncu))
    coo = form.elemental(ub, vb)
    A = form.assemble(ub, vb)
    nt = mesh.t.shape[1]
    tag = dict(trial=un, test=vn, mesh=type(mesh).__name__, desc=mc.desc)
    rect = ub.Nbfun != vb.Nbfun
    if rect:
        ctx.reached("rectangular-local")
    mech_rect = "bilinear-local_shape-declared-test-trial-but-data-laid-out-trial-test" if rect else None
    loc = coo.tolocal()
    # index roles: the same reshape on the index arrays
    R = np.moveaxis(coo.indices[0].reshape(tuple(coo.local_shape) + (-1,), order="C"), -1, 0)
    C = np.moveaxis(coo.indices[1].reshape(tuple(coo.local_shape) + (-1,), order="C"), -1, 0)
    edu, edv = np.asarray(ub.element_dofs), np.asarray(vb.element_dofs)   # (Nb, nt)
    ok_shape = loc.shape[0] == nt and R.shape == loc.shape
    roles = None
    if ok_shape:
        if loc.shape[1:] == (vb.Nbfun, ub.Nbfun) and (R == edv.T[:, :, None]).all() and (C == edu.T[:, None, :]).all():
            roles = "test-by-trial"
        elif loc.shape[1:] == (ub.Nbfun, vb.Nbfun) and (R == edv.T[:, None, :]).all() and (C == edu.T[:, :, None]).all():
            roles = "trial-by-test"
    ctx.check("tolocal-index-roles", roles is not None, mech=mech_rect or "tolocal-roles", local_shape=list(coo.local_shape),
              Nbfun_trial=int(ub.Nbfun), Nbfun_test=int(vb.Nbfun), **tag)
    # own per-cell matrices K[c, i(test), j(trial)]
    K = np.zeros((nt, vb.Nbfun, ub.Nbfun))
    w = ub.default_parameters()
    for j in range(ub.Nbfun):
        for i in range(vb.Nbfun):
            integ = 0
            for c, ou, ov in terms:
                integ = integ + c * (np.array(w["x"])[0] + 2.0) * apply_op(ub.basis[j], ou) * apply_op(vb.basis[i], ov)
            K[:, i, j] = (integ * ub.dx).sum(axis=1)
    scale = float(np.abs(K).max()) + 1e-300
    if roles == "test-by-trial":
        ctx.close("tolocal-equals-own-local-matrices", loc, K, rtol=1e-11, scale=scale, mech="tolocal-values", **tag)
    elif roles == "trial-by-test":
        ctx.close("tolocal-equals-own-local-matrices", loc, np.swapaxes(K, 1, 2), rtol=1e-11, scale=scale,
                  mech="tolocal-values", **tag)
    else:
        ctx.check("tolocal-equals-own-local-matrices", False, mech=mech_rect or "tolocal-values", **tag)
    back = coo.fromlocal(loc)
    ctx.check("fromlocal-roundtrip", np.array_equal(back.data, coo.data) and np.array_equal(back.indices, coo.indices),
              mech="fromlocal", **tag)
    ctx.close("dense-equals-sparse", coo.toarray(), coo.tocsr().toarray(), rtol=0, scale=1.0, atol=0.0, mech="toarray", **tag)
    ctx.close("dense-equals-sparse", coo.tocsr().toarray(), A.toarray(), rtol=1e-13, scale=scale, mech="tocsr-vs-assemble", **tag)
    if rect or un != vn:
        # different trial and test bases: the product has one entry per test function
        x = rng.standard_normal(A.shape[1])
        try:
            got = np.asarray(coo.dot(x))
            ok_shape = got.shape == (A.shape[0],)
            ctx.check("dot-equals-matvec", ok_shape, mech="coo-dot-rectangular:length", got=got.shape, want=(A.shape[0],), **tag)
            if ok_shape:
                ctx.close("dot-equals-matvec", got, A @ x, rtol=1e-11,
                          scale=float(np.abs(A).sum(axis=1).max()) * float(np.abs(x).max()) + 1e-300, mech="coo-dot-rectangular", **tag)
        except IndexError as e:
            ctx.check("dot-equals-matvec", False, mech="coo-dot-rectangular:raises", error=repr(e)[:160], **tag)
        ctx.reached("coo-dot-rectangular")
    if not rect and un == vn:
        x = rng.standard_normal(ub.N)
        ctx.close("dot-equals-matvec", coo.dot(x), A @ x, rtol=1e-11, scale=float(np.abs(A).sum(axis=1).max()) * float(np.abs(x).max()) + 1e-300,
                  mech="coo-dot", **tag)
        D = np.array([0, ub.N - 1])
        z = coo.dot(x, D=D)
        ref = A @ x
        ref[D] = x[D]
        ctx.close("dot-equals-matvec", z, ref, rtol=1e-11, scale=float(np.abs(ref).max()) + 1e-300, mech="coo-dot-D", **tag)
        dot_dtypes(ctx, rng, skfem, form, ub, coo, A, D, tag)
        # local mass matrices are invertible: inverse() inverts each
        mcoo = skfem.BilinearForm(lambda u, v, w: sum_values(u, v)).elemental(ub)
        try:
            inv = mcoo.inverse()
            L, Li = mcoo.tolocal(), inv.tolocal()
            I = np.einsum("cab,cbd->cad", Li, L)
            ctx.close("inverse-inverts-local", I, np.broadcast_to(np.eye(ub.Nbfun), I.shape), rtol=1e-8, scale=1.0,
                      mech="coo-inverse", **tag)
        except np.linalg.LinAlgError:
            ctx.drop("singular-local-mass")
    # facet data summed to elemental matrices
    if kind in ("tri", "quad", "tet") and un == vn:
        fb = skfem.FacetBasis(mesh, ur.make())
        fcoo = skfem.BilinearForm(lambda u, v, w: sum_values(u, v)).elemental(fb)
        el = fcoo.tolocal(basis=fb)
        floc = fcoo.tolocal()
        own = np.zeros((nt,) + floc.shape[1:])
        np.add.at(own, np.asarray(mesh.f2t)[0, fb.find], floc)
        ctx.close("tolocal-equals-own-local-matrices", el, own, rtol=1e-12, scale=float(np.abs(own).max()) + 1e-300,
                  mech="tolocal-facet-sum", **tag)
        ctx.reached("facet-tolocal")
        facet_subsets(ctx, rng, skfem, mesh, ur, fb, tag)
    other_elemental(ctx, rng, skfem, kind, mesh, ub, vb, terms, form, coo, tag)
    ctx.nontrivial((un, vn), "local-matrices", type(mesh).__name__)
    ctx.sample(dict(tag, local_shape=list(coo.local_shape), roles=roles), per_family=1)


def dot_dtypes(ctx, rng, skfem, form, ub, coo, A, D, tag):
    """COOData.dot(x) == A x for vectors that are not float64 and for complex elemental data.  Oracle: the dense
    assembled matrix times the vector in float64 / complex128 arithmetic.  A float32 vector promises no more than
    single precision (rtol 1e-6)."""
    N = ub.N
    Ad = A.toarray()
    rowsum = float(np.abs(Ad).sum(axis=1).max())
    vectors = [("int64", rng.integers(-4, 5, size=N).astype(np.int64), 1e-11),
               ("float32", rng.standard_normal(N).astype(np.float32), 1e-6),
               ("complex128", rng.standard_normal(N) + 1j * rng.standard_normal(N), 1e-11),
               ("int32-readonly", rng.integers(-4, 5, size=N).astype(np.int32), 1e-11)]
    vectors[-1][1].setflags(write=False)
    cc = complex(int(rng.integers(1, 5)), int(rng.integers(1, 5)) * int(rng.choice([-1, 1]))) / 2
    cform = skfem.BilinearForm(lambda *a: cc * form.form(*a), dtype=np.complex128)
    ccoo = cform.elemental(ub)
    Acd = cc * Ad
    # the complex elemental data themselves (complex assembly is trusted only after this comparison)
    ctx.close("dense-equals-sparse", ccoo.tocsr().toarray(), Acd, rtol=1e-12, scale=abs(cc) * float(np.abs(Ad).max()) + 1e-300,
              mech="complex-elemental-data", **tag)
    cases = [("real-data", coo, Ad, nm, xv, rt) for nm, xv, rt in vectors]
    cases += [("complex-data", ccoo, Acd, nm, xv, rt) for nm, xv, rt in
              [("float64", rng.standard_normal(N), 1e-11)] + vectors[:3]]
    for dname, c, M, xname, xv, rt in cases:
        wide = np.complex128 if (np.iscomplexobj(xv) or np.iscomplexobj(M)) else np.float64
        xw = np.asarray(xv, dtype=wide)
        scale = rowsum * abs(cc if dname == "complex-data" else 1.0) * float(np.abs(xw).max()) + 1e-300
        for Dset in (None, D):
            ref = M.astype(wide) @ xw
            if Dset is not None:
                ref[Dset] = xw[Dset]
            mech = f"coo-dot-dtype:{dname}:{xname}" + ("" if Dset is None else ":D")
            try:
                got = c.dot(xv) if Dset is None else c.dot(xv, D=Dset)
            except (TypeError, ValueError) as e:    # e.g. a float product accumulated into an integer array
                ctx.check("dot-equals-matvec", False, mech=mech, error=repr(e)[:200], **tag)
                continue
            ctx.close("dot-equals-matvec", got, ref, rtol=rt, scale=scale, mech=mech, got_dtype=str(np.asarray(got).dtype), **tag)
        ctx.reached("coo-dot-complex-data" if dname == "complex-data" else "coo-dot-non-float64-vector")


def sum_values(u, v):
    a, b = np.array(u), np.array(v)
    pr = a * b
    while pr.ndim > 2:
        pr = pr.sum(axis=0)
    return pr


ADD_DTYPES = (("float64", np.float64), ("complex128", np.complex128), ("float32", np.float32), ("int64", np.int64),
              ("complex64", np.complex64))


def own_tensor(coo, absolute=False):
    """The global tensor one elemental-data object stands for: the harness' own scatter-add of its values at its
    indices, in double precision (complex when the values are)."""
    data = np.asarray(coo.data)
    if absolute:
        data = np.abs(data).astype(np.float64)
    else:
        data = data.astype(np.complex128 if data.dtype.kind == "c" else np.float64)
    if len(coo.shape) == 0:
        return data.sum()
    out = np.zeros(tuple(int(n) for n in coo.shape), dtype=data.dtype)
    np.add.at(out, tuple(np.asarray(coo.indices).astype(np.int64)), data)
    return out


class Operand:
    """One elemental-data object with the harness' own dense tensor (cached)."""

    def __init__(self, name, coo):
        self.name, self.coo = name, coo
        self.dtype = np.asarray(coo.data).dtype
        self.T = own_tensor(coo)
        self.absT = own_tensor(coo, absolute=True)


def is_single(dt):
    dt = np.dtype(dt)
    return dt.kind in "fc" and dt.itemsize <= (8 if dt.kind == "c" else 4)


def judge_sum(ctx, S, ops, how, tag, xs=()):
    """S was obtained by adding the elemental data `ops` (in this order, by `how`).  Oracle: the sum of the operands' own
    dense tensors in double precision (numpy's type promotion keeps every operand exactly: int64 / float32 -> float64,
    anything + complex -> complex); and, literally, the sum of the operands' default conversions."""
    import functools
    import operator
    M = "coo-add"
    wide = np.result_type(*[o.dtype for o in ops])
    single = is_single(wide)                      # the sum itself is held in single precision
    rt = 1e-5 if single else 1e-12
    ref = functools.reduce(operator.add, [o.T for o in ops])
    mag = functools.reduce(operator.add, [o.absT for o in ops])
    scale = float(np.max(mag)) + 1e-300
    nd = len(ops[0].coo.shape)
    tens = ("functional", "linear", "bilinear")[nd]
    key = "+".join(o.name for o in ops)

    def mech(m):
        return f"coo-add-dtypes:{tens}:{m}:{how}:{key}"
    d = dict(tag, operands=key, how=how, sum_dtype=str(np.asarray(S.data).dtype))
    ctx.check(M, tuple(S.shape) == tuple(ops[0].coo.shape), mech=mech("shape"), shape=tuple(S.shape), **d)
    if nd >= 1:
        ctx.close(M, S.toarray(), ref, rtol=rt, scale=scale, mech=mech("toarray"), **d)
    if nd == 2:
        ctx.close(M, S.tocsr().toarray(), ref, rtol=rt, scale=scale, mech=mech("tocsr"), **d)
    dflt = S.todefault()
    dflt = dflt.toarray() if nd == 2 else np.asarray(dflt)
    ctx.close(M, dflt, ref, rtol=rt, scale=scale, mech=mech("todefault"), **d)
    # literally the property: the assembled sum is the sum of the assembled operands (each in its own precision)
    lit = functools.reduce(operator.add, [o.coo.todefault() for o in ops])
    lit = lit.toarray() if nd == 2 else np.asarray(lit)
    ctx.close(M, dflt, lit, rtol=1e-5 if any(is_single(o.dtype) for o in ops) else 1e-12, scale=scale,
              mech=mech("sum-of-assembled"), **d)
    if nd == 2:
        # per-cell local matrices of a sum: either refused, or one matrix per cell that is the sum of the operands' local
        # matrices (never twice as many "local matrices" cut out of the concatenated values)
        try:
            locS = np.asarray(S.tolocal())
        except Exception:  # noqa: BLE001  (the library refuses sums: legitimate)
            ctx.tolerated(M)
            locS = None
            ctx.reached("coo-add:tolocal-of-a-sum-refused")
        if locS is not None:
            try:
                locs = [np.asarray(o.coo.tolocal()) for o in ops]
                same_cells = all(l.shape == locs[0].shape for l in locs)
            except Exception:  # noqa: BLE001
                locs, same_cells = None, False
            if locs is not None and same_cells:
                want = functools.reduce(operator.add, [l.astype(np.complex128 if wide.kind == "c" else np.float64) for l in locs])
                ok = locS.shape == want.shape and np.allclose(locS, want, rtol=0, atol=rt * scale)
                ctx.check(M, bool(ok), mech=mech("tolocal-of-a-sum"), shape=locS.shape, want_shape=want.shape, **d)
            else:
                # operands on different domains: no per-cell meaning; returning anything but a refusal is wrong
                ctx.check(M, False, mech=mech("tolocal-of-a-sum-of-different-domains-returns"), shape=locS.shape, **d)
            ctx.reached("coo-add:tolocal-of-a-sum-answered")
    if nd == 2 and S.shape[0] == S.shape[1]:
        rows = float(np.max(mag.sum(axis=1)))
        for xname, xv in xs:
            ctx.close("dot-equals-matvec", S.dot(xv), ref @ xv, rtol=1e-5 if single else 1e-11,
                      scale=rows * float(np.abs(xv).max()) + 1e-300, mech=mech("dot-" + xname), **d)
    # reach: which operand could not hold the other
    for a, b in zip(ops[:-1], ops[1:]):
        if not np.can_cast(b.dtype, a.dtype, "safe"):
            ctx.reached("coo-add:left-operand-of-narrower-dtype")
        if not np.can_cast(a.dtype, b.dtype, "safe"):
            ctx.reached("coo-add:right-operand-of-narrower-dtype")
        if a.dtype.kind != "c" and b.dtype.kind == "c":
            ctx.reached("coo-add:real-plus-complex")
        if a.dtype.kind == "c" and b.dtype.kind != "c":
            ctx.reached("coo-add:complex-plus-real")


def dtype_operands(ctx, build, tensor):
    """Elemental data of one integrand in every data type the library produces: build(coef, dtype) -> COOData.  The
    integer data are the truncated values of the integrand scaled to O(1000)."""
    out = {}
    first = build(1.0, np.float64)
    top = float(np.abs(np.asarray(first.data)).max()) if np.asarray(first.data).size else 0.0
    if not np.isfinite(top) or top == 0.0:
        ctx.drop("elemental-data-all-zero:" + tensor)
        return out
    coefs = {"float64": 1.0, "complex128": complex(0.5, -1.25), "float32": 0.75,
             "int64": float(2.0 ** np.ceil(np.log2(1000.0 / top))), "complex64": complex(-0.25, 1.5)}
    for nm, dt in ADD_DTYPES:
        try:
            coo = first if nm == "float64" else build(coefs[nm], dt)
        except (TypeError, ValueError):
            ctx.drop(f"elemental-data-of-dtype-{nm}-not-produced:{tensor}")
            continue
        if np.asarray(coo.data).dtype != np.dtype(dt):
            ctx.drop(f"elemental-data-dtype-differs-from-request:{tensor}:{nm}")
            continue
        out[nm] = Operand(nm, coo)
    return out


def coo_add_mixed(ctx, k, kind):
    """Adding elemental-data objects of DIFFERENT data types (float64, complex128, float32, int64, complex64: real
    stiffness + complex absorbing boundary term and the like) in both orders, with `+` and with sum() over lists that
    start with either: every conversion of the sum (toarray, tocsr, todefault, dot) equals the sum of the operands'
    tensors.  Second operand on the boundary facets / on a subset of the cells / on the same cells."""
    import skfem
    rng = ctx.rng()
    pairs = LOCAL_PAIRS[kind]
    un, vn = pairs[k % len(pairs)]
    ur, vr = EL.by_name(un), EL.by_name(vn)
    mc, mesh = small_mesh(ctx, rng, kind, ctx.scale(10, 30))
    nt = mesh.t.shape[1]
    order = 2 * max(ur.make().maxdeg, vr.make().maxdeg)
    ub = skfem.CellBasis(mesh, ur.make(), intorder=order)
    vb = ub.with_element(vr.make()) if vn != un else ub
    tag = dict(trial=un, test=vn, mesh=type(mesh).__name__, desc=mc.desc)
    domains = [("same-cells", ub, vb)]
    if nt >= 2:
        S = np.sort(rng.choice(nt, size=max(1, nt // 2), replace=False)).astype(np.int32)
        us = skfem.CellBasis(mesh, ur.make(), intorder=order, elements=S)
        domains.append(("cell-subset", us, us.with_element(vr.make()) if vn != un else us))
    if ur.facet_basis and vr.facet_basis and kind != "wedge":
        uf = skfem.FacetBasis(mesh, ur.make(), intorder=order)
        domains.append(("boundary-facets", uf, uf.with_element(vr.make()) if vn != un else uf))

    def family(ub_, vb_):
        """The three kinds of elemental data of random integrands on (ub_, vb_), in every data type."""
        terms, ncu, ncv = make_coupling(rng, ub_, vb_)
        inner = bil_from(terms, ncu)

        def lin(*a):
            return sum(c * (a[-1].x[0] + 2.0) * apply_op(a[:-1], ov) for c, ou, ov in terms)
        fam = {"bilinear": dtype_operands(ctx, lambda cf, dt: skfem.BilinearForm(lambda *a: cf * inner(*a), dtype=dt).elemental(ub_, vb_),
                                          "bilinear"),
               "linear": dtype_operands(ctx, lambda cf, dt: skfem.LinearForm(lambda *a: cf * lin(*a), dtype=dt).elemental(vb_), "linear")}
        # functionals take the data type of the integrand
        fn = {}
        for nm, cf in (("float64", 1.0), ("complex128", complex(0.5, -1.25))):
            fn[nm] = Operand(nm, skfem.Functional(lambda w: cf * (w.x[0] + 2.0) * (1.0 + w.h)).coo_data(ub_))
        fam["functional"] = fn
        return fam
    A = family(ub, vb)
    xs = ()
    if ub.N == vb.N:
        xs = (("float64", rng.standard_normal(ub.N)), ("complex128", rng.standard_normal(ub.N) + 1j * rng.standard_normal(ub.N)))
    for dname, ub2, vb2 in domains:
        B = family(ub2, vb2)
        C = family(ub2, vb2) if dname == "same-cells" else A
        t2 = dict(tag, second_operand=dname)
        for tens in ("bilinear", "linear", "functional"):
            a, b, c = A[tens], B[tens], C[tens]
            # every ordered pair of data types (both orders of every mixed pair)
            for na in a:
                for nb in b:
                    judge_sum(ctx, a[na].coo + b[nb].coo, [a[na], b[nb]], "add", t2, xs)
            # sum() over lists of three starting with every data type (sum starts from the integer 0), and `+` chained
            names = [nm for nm, _ in ADD_DTYPES if nm in a and nm in b and nm in c]
            for i in range(len(names)):
                for trip in ((names[i], names[(i + 1) % len(names)], names[(i + 2) % len(names)]),
                             (names[i], names[i - 1], names[i - 2])):
                    if len(names) < 3:
                        trip = trip[:2]
                    ops = [src[nm] for src, nm in zip((a, b, c), trip)]
                    judge_sum(ctx, sum([o.coo for o in ops]), ops, "sum-of-list", t2, xs)
                    if len({o.dtype for o in ops}) > 1:
                        ctx.reached("coo-add:sum-of-list-of-mixed-dtypes")
            if len(a) > 1 and len(b) > 1:
                ctx.reached(f"coo-add:mixed-dtypes:{tens}")
        ctx.reached("coo-add:second-operand-on-" + dname)
    ctx.nontrivial((un, vn), "coo-add-mixed-dtypes", type(mesh).__name__)
    ctx.sample(dict(tag, dtypes=sorted(A["bilinear"]), domains=[d[0] for d in domains]), per_family=1)


def bmat_directed(ctx, k):
    """skfem.utils.bmat with 2-5 block columns of unequal widths (matrices, None entries, a trailing vector column)."""
    import skfem
    import scipy.sparse as sp
    rng = ctx.rng()
    n = int(rng.integers(2, 6))
    widths = rng.integers(1, 6, size=n)
    heights = rng.integers(1, 6, size=n)
    blocks = [[sp.random(int(heights[i]), int(widths[j]), density=0.8, random_state=int(rng.integers(1 << 30)), format="csr")
               if (i == j or rng.random() < 0.6) else None for j in range(n)] for i in range(n)]
    M = skfem.utils.bmat(blocks, "csr")
    ref = sp.bmat(blocks, "csr")
    ctx.close("bmat-equals-coupled", M.toarray(), ref.toarray(), rtol=0, scale=1.0, mech="bmat-directed")
    want = np.cumsum(widths)[:-1].tolist()
    ctx.check("bmat-block-offsets", list(M.blocks) == want, mech="bmat-blocks-cumulative-offsets-double-counted"
              if n >= 4 else "bmat-blocks-attribute", got=[int(b) for b in M.blocks], want=want, ncols=n)
    ctx.nontrivial("bmat", n)


def fam(fn, kind):
    return lambda ctx, k: fn(ctx, k, kind)


def block_magnitudes(ctx, k):
    """Blocks of very different magnitude in one coupled matrix (stiffness in Pa next to a permittivity, 2^40 .. 2^-60): the
    coupled assembly still equals the block matrix of the component forms, EVERY block judged relative to its own size.
    The coefficients are powers of two, so each block is the exactly scaled component matrix."""
    import skfem
    from skfem.helpers import dot, grad
    rng = ctx.rng()
    kind = ("tri", "quad", "tet", "line")[k % 4]
    hi = {"tri": "ElementTriP2", "quad": "ElementQuad2", "tet": "ElementTetP2", "line": "ElementLineP2"}[kind]
    lo = {"tri": "ElementTriP1", "quad": "ElementQuad1", "tet": "ElementTetP1", "line": "ElementLineP1"}[kind]
    mc = G.first_order(rng, kind)
    mesh = mc.mesh
    if mesh.t.shape[1] > 24:
        S = np.sort(rng.choice(mesh.t.shape[1], size=24, replace=False))
        p_, t_ = G.clean(np.asarray(mesh.p), np.asarray(mesh.t)[:, S].astype(np.int64))
        mesh = type(mesh)(p_, t_)
    e1, e2 = EL.by_name(hi).make(), EL.by_name(lo).make()
    basis = skfem.CellBasis(mesh, skfem.ElementComposite(e1, e2), intorder=4)
    b1, b2 = skfem.CellBasis(mesh, EL.by_name(hi).make(), intorder=4), skfem.CellBasis(mesh, EL.by_name(lo).make(), intorder=4)
    ex = [(40, -40, 0), (-60, 20, -20), (30, -30, 30), (0, -55, 10)][(k // 4) % 4]
    c11, c22, c12 = (2.0 ** e for e in ex)
    coupled = skfem.BilinearForm(lambda u1, u2, v1, v2, w: c11 * (u1 * v1 + dot(grad(u1), grad(v1))) + c22 * u2 * v2 + c12 * u2 * v1)
    K = coupled.assemble(basis)
    I1, I2 = basis.split_indices()
    A11 = skfem.BilinearForm(lambda u, v, w: u * v + dot(grad(u), grad(v))).assemble(b1).toarray()
    A22 = skfem.BilinearForm(lambda u, v, w: u * v).assemble(b2).toarray()
    A12 = skfem.BilinearForm(lambda u, v, w: u * v).assemble(b2, b1).toarray()          # trial = component 2, test = component 1
    Kd = K.toarray()
    tag = dict(mesh=type(mesh).__name__, exponents=list(ex), cells=int(mesh.t.shape[1]))
    for name, blk, ref in (("11", Kd[np.ix_(I1, I1)], c11 * A11), ("22", Kd[np.ix_(I2, I2)], c22 * A22),
                           ("12", Kd[np.ix_(I1, I2)], c12 * A12), ("21", Kd[np.ix_(I2, I1)], 0 * A12.T)):
        sc = float(np.abs(ref).max())
        if sc == 0:
            ctx.check("coupled-equals-blocks", float(np.abs(blk).max()) == 0.0, mech="block-magnitudes:zero-block-not-zero", block=name, **tag)
        else:
            ctx.close("coupled-equals-blocks", blk, ref, rtol=1e-12, scale=sc, mech="block-magnitudes:block-judged-by-its-own-size", block=name, **tag)
    # the elemental data say the same (dot does not pass through the sparse conversion)
    coo = coupled.coo_data(basis)
    x = rng.standard_normal(basis.N)
    x1 = np.zeros(basis.N)
    x1[I2] = x[I2]
    y = np.asarray(K @ x1)[I2]
    yc = np.asarray(coo.dot(x1))[I2]
    ctx.close("dot-equals-matvec", y, yc, rtol=1e-11, scale=float(np.abs(yc).max()) + 1e-300, mech="block-magnitudes:small-block-through-sparse-vs-dot", **tag)
    ctx.reached("blocks-of-very-different-magnitude")
    ctx.nontrivial("block-magnitudes", kind, ex)


FAMILIES = [Family("bmat-directed", bmat_directed, 20, 400), Family("block-magnitudes", block_magnitudes, 16, 160)]
for kd, q, th in (("line", 6, 90), ("tri", 18, 450), ("quad", 12, 300), ("tet", 14, 280), ("hex", 10, 160)):
    FAMILIES.append(Family("split-" + kd, fam(split_interp, kd), q, th))
    FAMILIES.append(Family("blocks-" + kd, fam(coupled_blocks, kd), q, th))
    FAMILIES.append(Family("partition-" + kd, fam(partition_sum, kd), max(3, q // 2), th // 2))
    FAMILIES.append(Family("local-" + kd, fam(local_matrices, kd), q, th))
FAMILIES += [Family("split-wedge", fam(split_interp, "wedge"), 4, 48), Family("blocks-wedge", fam(coupled_blocks, "wedge"), 4, 48),
             Family("partition-wedge", fam(partition_sum, "wedge"), 2, 24), Family("local-wedge", fam(local_matrices, "wedge"), 1, 12)]
for kd, q, th in (("tri", 5, 100), ("quad", 3, 60), ("tet", 3, 60), ("hex", 2, 40)):
    FAMILIES.append(Family("idx-" + kd, fam(asm_product, kd), q, th))
for kd, q, th in (("line", 3, 30), ("tri", 5, 100), ("quad", 3, 60), ("tet", 3, 60), ("hex", 2, 40), ("wedge", 1, 10)):
    FAMILIES.append(Family("cooadd-" + kd, fam(coo_add_mixed, kd), q, th))
for kd, q, th in (("line", 6, 60), ("tri", 16, 320), ("quad", 13, 200), ("tet", 16, 200), ("hex", 13, 130)):
    FAMILIES.append(Family("splitfacet-" + kd, fam(split_facets, kd), q, th))
