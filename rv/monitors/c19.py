"""C19 Vector, composite and block structures agree with their components.

Relational oracles (two executions the property says must agree) plus the dense per-cell reference of C01:
 (a) split + component interpolation == whole interpolation (value and derivative fields);
 (b) coupled assembly permuted by split_indices == separately assembled component blocks (component bases
     from split_bases and Form.block), == bmat of the blocks;
 (c) asm over a partition of the mesh into cell subsets == assembly on the whole mesh; asm over lists of
     bases sums; COOData.__add__;
 (d) elemental data: tolocal() are genuine per-cell matrices (the same reshape applied to the row and column
     index arrays shows one axis indexing test DOFs, the other trial DOFs of that cell) equal to the harness'
     own per-cell matrices, fromlocal(tolocal()) == id, inverse() inverts each, dense == sparse, dot(x) == A x;
 (e) CompositeBasis of component bases == basis of the composite element (up to the documented DOF order).
"""
from __future__ import annotations

import numpy as np

from ..engine import Family, Skip
from ..gen import elements as EL
from ..gen import meshes as G
from .c01 import enumerate_ops, apply_op, as_tuple

PID = "C19"
RULE = ("random meshes x composite elements of 2-3 components with different nodal/edge/facet/interior layouts, vector "
        "wrappers, Vector x scalar composites x coupling integrands drawn per component pair x random coefficient vectors x "
        "random partitions of the cells x rectangular trial/test pairs; distinct key = (component layout, operation, "
        "mesh class); non-trivial iff the components differ in >= 1 entity count or trial != test size")
TRACK = ["skfem.element.element_vector:ElementVector.gbasis", "skfem.element.element_composite:ElementComposite._deduce_bfun",
         "skfem.assembly.basis.abstract_basis:AbstractBasis.split_indices", "skfem.assembly.basis.abstract_basis:AbstractBasis.split_bases",
         "skfem.assembly.basis.abstract_basis:AbstractBasis.split", "skfem.assembly:asm",
         "skfem.assembly.form.coo_data:COOData.tolocal", "skfem.assembly.form.coo_data:COOData.fromlocal",
         "skfem.assembly.form.coo_data:COOData.inverse", "skfem.assembly.form.coo_data:COOData.__add__",
         "skfem.assembly.form.coo_data:COOData.dot", "skfem.assembly.form.form:Form.block", "skfem.utils:bmat",
         "skfem.assembly.basis.composite_basis:CompositeBasis.element_dofs"]
REQUIRED_MONITORS = ["component-interpolation-equals-whole", "split-indices-partition", "coupled-equals-blocks",
                     "form-block-equals-block", "bmat-equals-coupled", "bmat-block-offsets", "partition-sum-equals-whole",
                     "coo-add", "tolocal-index-roles", "tolocal-equals-own-local-matrices", "fromlocal-roundtrip",
                     "inverse-inverts-local", "dense-equals-sparse", "dot-equals-matvec", "compositebasis-equals-composite-element",
                     "split-on-restricted-basis"]
REQUIRED_REACH = ["rectangular-local", "vector-element", "composite-3-components", "3d-composite", "facet-tolocal", "asm-list-with-dof-array-keyword",
                  "vector-components-differ-from-dimension"]


def field_parts(f):
    out = {"value": np.array(f)}
    for nm in ("grad", "div", "curl", "hess"):
        v = getattr(f, nm, None)
        if v is not None:
            out[nm] = np.asarray(v)
    return out


def make_coupling(rng, ub, vb):
    """Term list sum_k c_k * op_k(u) * op'_k(v) over (trial component, test component) pairs, covering every pair."""
    ops_u, ops_v = enumerate_ops(ub), enumerate_ops(vb)
    ncu, ncv = len(ub.basis[0]), len(vb.basis[0])
    terms = []
    for cu in range(ncu):
        for cv in range(ncv):
            ou = [o for o in ops_u if o[0] == cu]
            ov = [o for o in ops_v if o[0] == cv]
            terms.append((float(rng.integers(1, 9)) / 4, ou[int(rng.integers(len(ou)))], ov[int(rng.integers(len(ov)))]))
    return terms, ncu, ncv


def bil_from(terms, ncu, only=None):
    def form(*args):
        w = args[-1]
        u, v = args[:ncu], args[ncu:-1]
        out = 0
        for c, ou, ov in terms:
            if only is not None and (ou[0], ov[0]) != only:
                continue
            out = out + c * (w.x[0] + 2.0) * apply_op(u, ou) * apply_op(v, ov)
        return out
    return form


def with_arity(fn, n):
    """Wrap a *args callable into one with n explicit positional parameters (Form.block and asm() inspect the
    signature of the form)."""
    names = ", ".join(f"a{i}" for i in range(n))
    return eval(f"lambda {names}: fn({names})", {"fn": fn})


def pick(ctx, rng, kind, k):
    recs = EL.composites(kind)
    base = [r for r in EL.of_kind(kind) if r.family == "h1" and not r.skeleton and r.mesh_req == "any"
            and r.name in ("ElementLineP2", "ElementTriP2", "ElementTriP1B", "ElementTriCR", "ElementQuad2", "ElementQuadS2",
                           "ElementTetP2", "ElementTetCR", "ElementHex2", "ElementHexS2", "ElementTriP3")]
    recs = recs + [EL.vector(r) for r in base if kind != "line"]
    # vector elements whose number of components differs from the dimension of the mesh
    odd = {"line": 2, "tri": 3, "quad": 1, "tet": 2, "hex": 2}
    recs = recs + [EL.vector(r, odd[kind]) for r in base[:2] if kind in odd]
    rec = recs[k % len(recs)]
    mc = G.first_order(rng, kind)
    tries = 0
    cap = ctx.scale(16, 40) if kind in ("tet", "hex") else ctx.scale(24, 60)
    while mc.mesh.t.shape[1] > cap and tries < 8:
        tries += 1
        mc = G.first_order(ctx.rng("again", tries), kind)
    mesh = mc.mesh
    if mesh.t.shape[1] > cap:
        S = np.sort(rng.choice(mesh.t.shape[1], size=cap, replace=False))
        p, t = G.clean(np.asarray(mesh.p), np.asarray(mesh.t)[:, S].astype(np.int64))
        mesh = type(mesh)(p, t)
    return rec, mc, mesh


def layout_key(elem):
    if hasattr(elem, "elems"):
        return tuple((type(e).__name__, e.nodal_dofs, e.edge_dofs, e.facet_dofs, e.interior_dofs) for e in elem.elems)
    return (type(elem).__name__, elem.nodal_dofs, elem.edge_dofs, elem.facet_dofs, elem.interior_dofs)


def split_interp(ctx, k, kind):
    import skfem
    rng = ctx.rng()
    rec, mc, mesh = pick(ctx, rng, kind, k)
    elem = rec.make()
    basis = skfem.CellBasis(mesh, elem)
    x = rng.standard_normal(basis.N)
    tag = dict(elem=rec.name, mesh=type(mesh).__name__, desc=mc.desc)
    is_vec = rec.name.startswith("Vector(")
    if is_vec:
        ctx.reached("vector-element")
        if elem.dim != mesh.dim():
            ctx.reached("vector-components-differ-from-dimension")
    if hasattr(elem, "elems") and len(elem.elems) >= 3:
        ctx.reached("composite-3-components")
    if hasattr(elem, "elems") and mc.dim == 3:
        ctx.reached("3d-composite")
    ixs = basis.split_indices()
    allix = np.concatenate(ixs)
    ctx.check("split-indices-partition", np.array_equal(np.sort(allix), np.arange(basis.N)), mech=f"split-indices:{rec.name.split('(')[0]}",
              sizes=[len(i) for i in ixs], N=int(basis.N), **tag)
    parts = basis.split(x)
    whole = basis.interpolate(x)
    for ci, (xi, bi) in enumerate(parts):
        ctx.check("split-indices-partition", np.array_equal(xi, x[ixs[ci]]) and bi.N == len(xi), mech="split-vector",
                  component=ci, **tag)
        fi = bi.interpolate(xi)
        if is_vec:
            ref = {nm: v[ci] for nm, v in field_parts(whole).items()}
        else:
            ref = field_parts(as_tuple(whole)[ci])
        got = field_parts(fi) if not isinstance(fi, tuple) else field_parts(fi[0])
        for nm, r in ref.items():
            if nm not in got:
                ctx.check("component-interpolation-equals-whole", False, mech=f"component-field-missing:{nm}", component=ci, **tag)
                continue
            ctx.close("component-interpolation-equals-whole", got[nm], r, rtol=1e-11,
                      scale=float(np.abs(r).max()) + float(np.abs(x).max()) * 1e-3,
                      mech=f"component-interp:{rec.name.split('(')[0]}", component=ci, field=nm, **tag)
    ctx.nontrivial(str(layout_key(elem)), "split-interpolate", type(mesh).__name__)
    # the same on a basis restricted to a cell subset / on a facet basis: split must stay on that domain
    nt = mesh.t.shape[1]
    S = np.sort(rng.choice(nt, size=max(1, nt // 2), replace=False)).astype(np.int32)
    variants = [("cell-subset", lambda e: skfem.CellBasis(mesh, e, elements=S))]
    if rec.facet_basis and kind not in ("line", "wedge"):
        variants.append(("boundary-facets", lambda e: skfem.FacetBasis(mesh, e)))
    for vname, mk in variants:
        b2 = mk(rec.make())
        w2 = as_tuple(b2.interpolate(x))
        ok = True
        detail = None
        try:
            for ci, (xi, bi) in enumerate(b2.split(x)):
                fi = bi.interpolate(xi)
                fi = fi[0] if isinstance(fi, tuple) else fi
                ref = field_parts(w2[0])["value"][ci] if is_vec else field_parts(w2[ci])["value"]
                g = np.array(fi)
                if g.shape != ref.shape or np.abs(g - ref).max() > 1e-10 * (np.abs(ref).max() + 1e-300):
                    ok, detail = False, dict(component=ci, got_shape=g.shape, want_shape=ref.shape)
                    break
        except Exception as e:
            ok, detail = False, dict(error=repr(e)[:200])
        ctx.check("split-on-restricted-basis", ok, mech="split_bases-ignores-restriction-of-the-basis", variant=vname,
                  detail=detail, **tag)
    ctx.sample(dict(tag, N=int(basis.N), components=len(parts)), per_family=1)


def coupled_blocks(ctx, k, kind):
    import skfem
    rng = ctx.rng()
    rec, mc, mesh = pick(ctx, rng, kind, k)
    if rec.name.startswith("Vector("):
        raise Skip("vector-wrapper-has-no-component-bases-with-own-fields")
    elem = rec.make()
    basis = skfem.CellBasis(mesh, elem)
    terms, ncu, ncv = make_coupling(rng, basis, basis)
    A = skfem.BilinearForm(bil_from(terms, ncu)).assemble(basis).toarray()
    ixs = basis.split_indices()
    sb = basis.split_bases()
    tag = dict(elem=rec.name, mesh=type(mesh).__name__, desc=mc.desc)
    blocks = [[None] * ncu for _ in range(ncv)]
    scale = float(np.abs(A).max()) + 1e-300
    for cu in range(ncu):
        for cv in range(ncv):
            # the (test cv, trial cu) block assembled on the component bases with the single term of that pair
            sub = [(c, (0,) + ou[1:], (0,) + ov[1:]) for c, ou, ov in terms if (ou[0], ov[0]) == (cu, cv)]
            B = skfem.BilinearForm(bil_from(sub, 1)).assemble(sb[cu], sb[cv])
            blocks[cv][cu] = B
            ctx.close("coupled-equals-blocks", A[np.ix_(ixs[cv], ixs[cu])], B.toarray(), rtol=1e-11, scale=scale,
                      mech=f"coupled-block:{rec.name.split('(')[0]}", trial=cu, test=cv, **tag)
            # Form.block on the coupled form
            # Form.block zeroes the other components with zero fields *of the given component's type*, so it is
            # meaningful only when all components have the same tensor order and fields (scalar H1 components)
            if all(type(e).__mro__[1].__name__ == "ElementH1" for e in elem.elems):
                Bb = skfem.BilinearForm(with_arity(bil_from(terms, ncu), 2 * ncu + 1)).block(cu, cv).assemble(sb[cu], sb[cv])
                ctx.close("form-block-equals-block", Bb.toarray(), B.toarray(), rtol=1e-12, scale=scale,
                          mech="form-block", trial=cu, test=cv, **tag)
    M = skfem.utils.bmat(blocks, "csr")
    perm = np.concatenate(ixs)
    ctx.close("bmat-equals-coupled", M.toarray(), A[np.ix_(perm, perm)], rtol=1e-11, scale=scale, mech="bmat", **tag)
    want = np.cumsum([len(i) for i in ixs])[:-1].tolist()
    ctx.check("bmat-block-offsets", list(M.blocks) == want, mech="bmat-blocks-attribute", got=list(M.blocks), want=want, **tag)
    # CompositeBasis of the component bases: same matrix up to the DOF order (component by component)
    try:
        cb = skfem.assembly.basis.composite_basis.CompositeBasis(*sb)
        Ac = skfem.BilinearForm(bil_from(terms, ncu)).assemble(cb).toarray()
        ctx.close("compositebasis-equals-composite-element", Ac, A[np.ix_(perm, perm)], rtol=1e-11, scale=scale,
                  mech="compositebasis", **tag)
        xs = rng.standard_normal(cb.N)
        fc = cb.interpolate(xs)
        xfull = np.zeros(basis.N)
        xfull[perm] = xs
        fw = as_tuple(basis.interpolate(xfull))
        for ci in range(len(fw)):
            ctx.close("compositebasis-equals-composite-element", np.array(fc[ci]), np.array(fw[ci]), rtol=1e-11,
                      scale=float(np.abs(np.array(fw[ci])).max()) + 1e-3, mech="compositebasis-interpolate", component=ci, **tag)
    except NotImplementedError:
        ctx.drop("compositebasis-not-implemented")
    ctx.nontrivial(str(layout_key(elem)), "coupled-blocks", type(mesh).__name__)


def partition_sum(ctx, k, kind):
    import skfem
    rng = ctx.rng()
    rec, mc, mesh = pick(ctx, rng, kind, k)
    elem = rec.make()
    basis = skfem.CellBasis(mesh, elem)
    terms, ncu, ncv = make_coupling(rng, basis, basis)
    form = skfem.BilinearForm(bil_from(terms, ncu))
    A = form.assemble(basis)
    nt = mesh.t.shape[1]
    nparts = int(rng.integers(2, 5))
    lab = rng.integers(0, nparts, size=nt)
    parts = [np.nonzero(lab == i)[0].astype(np.int32) for i in range(nparts)]
    parts = [p for p in parts if p.size]
    bases = [skfem.CellBasis(mesh, rec.make(), elements=p) for p in parts]
    tag = dict(elem=rec.name, mesh=type(mesh).__name__, desc=mc.desc, parts=[int(p.size) for p in parts])
    # one list of bases -> sum over the bases
    S1 = sum(form.assemble(b) for b in bases)
    scale = float(np.abs(A).max()) + 1e-300
    ctx.close("partition-sum-equals-whole", S1.toarray(), A.toarray(), rtol=1e-11, scale=scale, mech="partition-sum", **tag)
    S2 = skfem.asm(form, bases)
    ctx.close("partition-sum-equals-whole", S2.toarray(), A.toarray(), rtol=1e-11, scale=scale, mech="asm-list", **tag)
    lin = skfem.LinearForm(lambda *a: sum(apply_op(a[:-1], ov) * c for c, ou, ov in terms))
    b_whole = lin.assemble(basis)
    b_sum = skfem.asm(lin, bases)
    ctx.close("partition-sum-equals-whole", b_sum, b_whole, rtol=1e-11, scale=float(np.abs(b_whole).max()) + 1e-300,
              mech="asm-list-linear", **tag)
    # a coefficient vector passed as keyword parameter is interpolated on each basis of the list
    xc = rng.standard_normal(basis.N)

    def coef(w):
        f = w["c"]
        f = f[0] if isinstance(f, tuple) else f
        a = np.array(f)
        while a.ndim > 2:
            a = a[0]
        return a
    inner = bil_from(terms, ncu)
    formc = skfem.BilinearForm(lambda *a: (1.0 + coef(a[-1])) * inner(*a))
    Ac = formc.assemble(basis, c=xc)
    # equal halves: the silent case of a parameter interpolated once and reused
    half = nt // 2
    if half >= 1:
        perm = rng.permutation(nt)
        eq = [np.sort(perm[:half]).astype(np.int32), np.sort(perm[half:2 * half]).astype(np.int32)]
        rest = np.sort(perm[2 * half:]).astype(np.int32)
        blist = [skfem.CellBasis(mesh, rec.make(), elements=p) for p in eq + ([rest] if rest.size else [])]
        S3 = skfem.asm(formc, blist, c=xc)
        ctx.close("partition-sum-equals-whole", S3.toarray(), Ac.toarray(), rtol=1e-11, scale=float(np.abs(Ac).max()) + 1e-300,
                  mech="asm-list-with-coefficient-vector-keyword", **tag)
        ctx.reached("asm-list-with-dof-array-keyword")
    # COOData addition
    c1, c2 = form.elemental(bases[0]), form.elemental(bases[-1])
    ctx.close("coo-add", (c1 + c2).todefault().toarray(), (c1.todefault() + c2.todefault()).toarray(), rtol=1e-12, scale=scale,
              mech="coo-add", **tag)
    ctx.check("coo-add", (0 + c1).todefault().shape == c1.todefault().shape, mech="coo-radd")
    ctx.nontrivial(str(layout_key(elem)), "partition", type(mesh).__name__)


def local_matrices(ctx, k, kind):
    """tolocal / fromlocal / inverse / dot / dense-sparse on square and rectangular elemental data."""
    import skfem
    rng = ctx.rng()
    pairs = {"line": [("ElementLineP2", "ElementLineP1"), ("ElementLineP1", "ElementLineP1"), ("ElementLineP1DG", "ElementLineP1DG")],
             "tri": [("ElementTriP2", "ElementTriP1"), ("ElementTriP1", "ElementTriP2"), ("ElementTriP1DG", "ElementTriP1DG"),
                     ("ElementTriRT1", "ElementTriP0"), ("ElementTriP2", "ElementTriP2")],
             "quad": [("ElementQuad2", "ElementQuad1"), ("ElementQuad1", "ElementQuad1"), ("ElementQuad1DG", "ElementQuad1DG")],
             "tet": [("ElementTetP2", "ElementTetP1"), ("ElementTetP1", "ElementTetP1"), ("ElementTetN1", "ElementTetRT1")],
             "hex": [("ElementHex1", "ElementHex0"), ("ElementHex1", "ElementHex1")]}[kind]
    un, vn = pairs[k % len(pairs)]
    mc = G.first_order(rng, kind)
    tries = 0
    while mc.mesh.t.shape[1] > 30 and tries < 8:
        tries += 1
        mc = G.first_order(ctx.rng("again", tries), kind)
    mesh = mc.mesh
    if mesh.t.shape[1] > 30:
        raise Skip("mesh-too-large")
    ur, vr = EL.by_name(un), EL.by_name(vn)
    order = 2 * max(ur.make().maxdeg, vr.make().maxdeg)
    ub = skfem.CellBasis(mesh, ur.make(), intorder=order)
    vb = ub.with_element(vr.make()) if vn != un else ub
    terms, ncu, ncv = make_coupling(rng, ub, vb)
    form = skfem.BilinearForm(bil_from(terms, ncu))
    coo = form.elemental(ub, vb)
    A = form.assemble(ub, vb)
    nt = mesh.t.shape[1]
    tag = dict(trial=un, test=vn, mesh=type(mesh).__name__, desc=mc.desc)
    rect = ub.Nbfun != vb.Nbfun
    if rect:
        ctx.reached("rectangular-local")
    mech_rect = "bilinear-local_shape-declared-test-trial-but-data-laid-out-trial-test" if rect else None
    loc = coo.tolocal()
    # index roles: the same reshape on the index arrays
    R = np.moveaxis(coo.indices[0].reshape(tuple(coo.local_shape) + (-1,), order="C"), -1, 0)
    C = np.moveaxis(coo.indices[1].reshape(tuple(coo.local_shape) + (-1,), order="C"), -1, 0)
    edu, edv = np.asarray(ub.element_dofs), np.asarray(vb.element_dofs)   # (Nb, nt)
    ok_shape = loc.shape[0] == nt and R.shape == loc.shape
    roles = None
    if ok_shape:
        if loc.shape[1:] == (vb.Nbfun, ub.Nbfun) and (R == edv.T[:, :, None]).all() and (C == edu.T[:, None, :]).all():
            roles = "test-by-trial"
        elif loc.shape[1:] == (ub.Nbfun, vb.Nbfun) and (R == edv.T[:, None, :]).all() and (C == edu.T[:, :, None]).all():
            roles = "trial-by-test"
    ctx.check("tolocal-index-roles", roles is not None, mech=mech_rect or "tolocal-roles", local_shape=list(coo.local_shape),
              Nbfun_trial=int(ub.Nbfun), Nbfun_test=int(vb.Nbfun), **tag)
    # own per-cell matrices K[c, i(test), j(trial)]
    K = np.zeros((nt, vb.Nbfun, ub.Nbfun))
    w = ub.default_parameters()
    for j in range(ub.Nbfun):
        for i in range(vb.Nbfun):
            integ = 0
            for c, ou, ov in terms:
                integ = integ + c * (np.array(w["x"])[0] + 2.0) * apply_op(ub.basis[j], ou) * apply_op(vb.basis[i], ov)
            K[:, i, j] = (integ * ub.dx).sum(axis=1)
    scale = float(np.abs(K).max()) + 1e-300
    if roles == "test-by-trial":
        ctx.close("tolocal-equals-own-local-matrices", loc, K, rtol=1e-11, scale=scale, mech="tolocal-values", **tag)
    elif roles == "trial-by-test":
        ctx.close("tolocal-equals-own-local-matrices", loc, np.swapaxes(K, 1, 2), rtol=1e-11, scale=scale,
                  mech="tolocal-values", **tag)
    else:
        ctx.check("tolocal-equals-own-local-matrices", False, mech=mech_rect or "tolocal-values", **tag)
    back = coo.fromlocal(loc)
    ctx.check("fromlocal-roundtrip", np.array_equal(back.data, coo.data) and np.array_equal(back.indices, coo.indices),
              mech="fromlocal", **tag)
    ctx.close("dense-equals-sparse", coo.toarray(), coo.tocsr().toarray(), rtol=0, scale=1.0, atol=0.0, mech="toarray", **tag)
    ctx.close("dense-equals-sparse", coo.tocsr().toarray(), A.toarray(), rtol=1e-13, scale=scale, mech="tocsr-vs-assemble", **tag)
    if not rect and un == vn:
        x = rng.standard_normal(ub.N)
        ctx.close("dot-equals-matvec", coo.dot(x), A @ x, rtol=1e-11, scale=float(np.abs(A).sum(axis=1).max()) * float(np.abs(x).max()) + 1e-300,
                  mech="coo-dot", **tag)
        D = np.array([0, ub.N - 1])
        z = coo.dot(x, D=D)
        ref = A @ x
        ref[D] = x[D]
        ctx.close("dot-equals-matvec", z, ref, rtol=1e-11, scale=float(np.abs(ref).max()) + 1e-300, mech="coo-dot-D", **tag)
        # local mass matrices are invertible: inverse() inverts each
        mcoo = skfem.BilinearForm(lambda u, v, w: sum_values(u, v)).elemental(ub)
        try:
            inv = mcoo.inverse()
            L, Li = mcoo.tolocal(), inv.tolocal()
            I = np.einsum("cab,cbd->cad", Li, L)
            ctx.close("inverse-inverts-local", I, np.broadcast_to(np.eye(ub.Nbfun), I.shape), rtol=1e-8, scale=1.0,
                      mech="coo-inverse", **tag)
        except np.linalg.LinAlgError:
            ctx.drop("singular-local-mass")
    # facet data summed to elemental matrices
    if kind in ("tri", "quad", "tet") and un == vn:
        fb = skfem.FacetBasis(mesh, ur.make())
        fcoo = skfem.BilinearForm(lambda u, v, w: sum_values(u, v)).elemental(fb)
        el = fcoo.tolocal(basis=fb)
        floc = fcoo.tolocal()
        own = np.zeros((nt,) + floc.shape[1:])
        np.add.at(own, np.asarray(mesh.f2t)[0, fb.find], floc)
        ctx.close("tolocal-equals-own-local-matrices", el, own, rtol=1e-12, scale=float(np.abs(own).max()) + 1e-300,
                  mech="tolocal-facet-sum", **tag)
        ctx.reached("facet-tolocal")
    ctx.nontrivial((un, vn), "local-matrices", type(mesh).__name__)
    ctx.sample(dict(tag, local_shape=list(coo.local_shape), roles=roles), per_family=1)


def sum_values(u, v):
    a, b = np.array(u), np.array(v)
    pr = a * b
    while pr.ndim > 2:
        pr = pr.sum(axis=0)
    return pr


def bmat_directed(ctx, k):
    """skfem.utils.bmat with 2-5 block columns of unequal widths (matrices, None entries, a trailing vector column)."""
    import skfem
    import scipy.sparse as sp
    rng = ctx.rng()
    n = int(rng.integers(2, 6))
    widths = rng.integers(1, 6, size=n)
    heights = rng.integers(1, 6, size=n)
    blocks = [[sp.random(int(heights[i]), int(widths[j]), density=0.8, random_state=int(rng.integers(1 << 30)), format="csr")
               if (i == j or rng.random() < 0.6) else None for j in range(n)] for i in range(n)]
    M = skfem.utils.bmat(blocks, "csr")
    ref = sp.bmat(blocks, "csr")
    ctx.close("bmat-equals-coupled", M.toarray(), ref.toarray(), rtol=0, scale=1.0, mech="bmat-directed")
    want = np.cumsum(widths)[:-1].tolist()
    ctx.check("bmat-block-offsets", list(M.blocks) == want, mech="bmat-blocks-cumulative-offsets-double-counted"
              if n >= 4 else "bmat-blocks-attribute", got=[int(b) for b in M.blocks], want=want, ncols=n)
    ctx.nontrivial("bmat", n)


def fam(fn, kind):
    return lambda ctx, k: fn(ctx, k, kind)


FAMILIES = [Family("bmat-directed", bmat_directed, 20, 400)]
for kd, q, th in (("line", 6, 90), ("tri", 18, 450), ("quad", 12, 300), ("tet", 14, 280), ("hex", 10, 160)):
    FAMILIES.append(Family("split-" + kd, fam(split_interp, kd), q, th))
    FAMILIES.append(Family("blocks-" + kd, fam(coupled_blocks, kd), q, th))
    FAMILIES.append(Family("partition-" + kd, fam(partition_sum, kd), max(3, q // 2), th // 2))
    FAMILIES.append(Family("local-" + kd, fam(local_matrices, kd), q, th))
