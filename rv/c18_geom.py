"""Helpers of the C18 monitor (mesh surgery): geometric keys of cells/facets, exact measures,
the harness' own validity check, tag bookkeeping.  Nothing here calls the surgery code under
judgement; `mesh.facets` (judged by C11) is only used to interpret what a facet index designates.
"""
from __future__ import annotations

from fractions import Fraction

import numpy as np

from . import exact as X
from .gen import meshes as G
from .refmodel import topology as T

F = Fraction
ONE = {d: X.pconst(1, d) for d in (1, 2, 3)}


class St:
    """A mesh together with lazily computed harness-side views."""

    def __init__(self, mesh, kind=None, order=None):
        self.mesh = mesh
        self.kind = kind or G.kind_of(mesh)
        self.order = order or G.order_of(mesh)
        self.nv = G.NVERT[self.kind]
        self.dim = G.DIM[self.kind]
        self._P = self._topo = self._fkeys = None
        self._cm = {}

    @property
    def cls(self):
        return type(self.mesh).__name__

    @property
    def t(self):
        return np.asarray(self.mesh.t)[:self.nv]

    @property
    def nt(self):
        return int(self.mesh.t.shape[1])

    @property
    def P(self):
        """Coordinate tuple per node (exact floats)."""
        if self._P is None:
            self._P = [tuple(c) for c in np.asarray(self.mesh.p).T.tolist()]
        return self._P

    @property
    def topo(self):
        if self._topo is None:
            rd = self.mesh.elem.refdom
            self._topo = T.Topology(self.t, rd.facets, rd.edges)
        return self._topo

    @property
    def sorted_cells(self):
        """Classes that sort each cell's vertices on construction (local order carries no meaning)."""
        return bool(getattr(self.mesh, "sort_t", False)) or self.kind == "tri"

    # ------------------------------------------------------------ geometric keys
    def ckey(self, c):
        t = self.t
        return frozenset(self.P[v] for v in t[:, c])

    def ctuple(self, c):
        t = self.t
        return tuple(self.P[v] for v in t[:, c])

    def fkey(self, f):
        fc = np.asarray(self.mesh.facets)
        return frozenset(self.P[v] for v in fc[:, f])

    def fverts(self, f):
        return frozenset(int(v) for v in np.asarray(self.mesh.facets)[:, f])

    def cell_facet_vertex_sets(self, cells):
        """Vertex-index sets of all facets of the given cells (own dictionary topology)."""
        out = set()
        for c in cells:
            out.update(frozenset(k) for k in self.topo.cell_facets[int(c)])
        return out

    # ------------------------------------------------------------------ measures
    def cell_measure(self, c):
        """Exact unsigned measure of the (vertex skeleton of the) cell, None if the Jacobian changes sign."""
        c = int(c)
        if c not in self._cm:
            self._cm[c] = measure_of(self.kind, [self.P[v] for v in self.t[:, c]])
        return self._cm[c]

    def measure(self, cells=None):
        tot = F(0)
        for c in (range(self.nt) if cells is None else cells):
            m = self.cell_measure(c)
            if m is None:
                return None
            tot += m
        return tot

    def centroid(self, c):
        vs = [X.frv(self.P[v]) for v in self.t[:, c]]
        return [sum(col) / len(vs) for col in zip(*vs)]


def measure_of(kind, verts):
    d = G.DIM[kind]
    if len(verts[0]) != d:
        return None
    try:
        v, _ = X.integrate_cell(ONE[d], kind, [X.frv(x) for x in verts])
    except StopIteration:   # rv.exact: identically vanishing Jacobian (all vertices coincide / collinear)
        return None
    return v


def simplex_signed(verts):
    """Exact signed d! * measure of a d-simplex in R^d."""
    vs = [X.frv(x) for x in verts]
    d = len(vs) - 1
    M = [[vs[j + 1][i] - vs[0][i] for j in range(d)] for i in range(d)]
    return X.det(M)


def quad_signed(verts):
    """Exact signed 2 * area (shoelace) of the polygon v0..v3."""
    vs = [X.frv(x) for x in verts]
    s = F(0)
    for i in range(len(vs)):
        a, b = vs[i], vs[(i + 1) % len(vs)]
        s += a[0] * b[1] - a[1] * b[0]
    return s


def quad_strictly_convex(verts):
    vs = [X.frv(x) for x in verts]
    signs = set()
    for i in range(4):
        a, b, c = vs[i], vs[(i + 1) % 4], vs[(i + 2) % 4]
        cr = (b[0] - a[0]) * (c[1] - b[1]) - (b[1] - a[1]) * (c[0] - b[0])
        if cr == 0:
            return False
        signs.add(cr > 0)
    return len(signs) == 1


def coplanar(verts):
    vs = [X.frv(x) for x in verts]
    M = [[vs[j + 1][i] - vs[0][i] for j in range(3)] for i in range(3)]
    return X.det(M) == 0


def hex_faces_planar(st, c):
    rd = st.mesh.elem.refdom
    col = st.t[:, c]
    return all(coplanar([st.P[col[i]] for i in lf]) for lf in rd.facets)


def wedge_faces_planar(st, c):
    col = st.t[:, c]
    for lf in ((0, 1, 3, 4), (1, 2, 4, 5), (0, 2, 3, 5)):
        if not coplanar([st.P[col[i]] for i in lf]):
            return False
    return True


# --------------------------------------------------------------------- validity
def expected_node_count(st):
    """Number of nodes a mesh of this class must carry, counted with the dictionary topology."""
    topo = st.topo
    nvert = len(topo.vertices())
    if st.order == 1:
        return nvert
    nf = len(topo.facet_cells)
    ne = len(topo.edge_cells) if topo.local_edges is not None else 0
    return {"tri": nvert + nf, "quad": nvert + nf + st.nt, "tet": nvert + ne,
            "hex": nvert + ne + nf + st.nt}[st.kind]


def own_validity(st, allow_unused=False, allow_duplicates=False, allow_repeated_cells=False, need_measure=True):
    """List of problems (empty = valid).  Independent of Mesh.is_valid()."""
    probs = []
    m = st.mesh
    p = np.asarray(m.p)
    t = np.asarray(m.t)
    if p.ndim != 2 or p.shape[0] != st.dim:
        probs.append(("p-shape", list(p.shape)))
        return probs
    if t.ndim != 2 or t.shape[0] != st.nv or not np.issubdtype(t.dtype, np.integer):
        probs.append(("t-shape", list(t.shape), str(t.dtype)))
        return probs
    if t.size == 0:
        probs.append(("no-cells",))
        return probs
    if not np.isfinite(p).all():
        probs.append(("non-finite-coordinates", int((~np.isfinite(p)).any(axis=0).sum())))
    if t.min() < 0 or t.max() >= p.shape[1]:
        probs.append(("t-out-of-range", int(t.min()), int(t.max()), int(p.shape[1])))
        return probs
    ts = np.sort(t, axis=0)
    if (np.diff(ts, axis=0) == 0).any():
        probs.append(("vertex-repeated-in-cell", int((np.diff(ts, axis=0) == 0).any(axis=0).sum())))
    if not allow_repeated_cells and np.unique(ts, axis=1).shape[1] != t.shape[1]:
        probs.append(("cell-listed-twice",))
    used = np.unique(t)
    if st.order == 1:
        if not allow_unused and used.size != p.shape[1]:
            probs.append(("unused-nodes", int(p.shape[1] - used.size)))
        cols = p[:, used] if allow_unused else p
        if not allow_duplicates and np.unique(cols, axis=1).shape[1] != cols.shape[1]:
            probs.append(("duplicate-coordinates", int(cols.shape[1] - np.unique(cols, axis=1).shape[1])))
    else:
        want = expected_node_count(st)
        if p.shape[1] != want:
            probs.append(("node-count", int(p.shape[1]), int(want)))
        if used.size != used.max() + 1:
            probs.append(("vertex-numbers-not-leading",))
    if need_measure and not probs and np.isfinite(p).all():
        for c in range(st.nt):
            mu = st.cell_measure(c)
            if mu is None or mu <= 0:
                probs.append(("degenerate-or-folded-cell", int(c)))
                break
    return probs


def lib_is_valid(mesh):
    try:
        return bool(mesh.is_valid())
    except Exception as e:  # an exception from the validator is itself an invalid result
        return repr(e)


# ------------------------------------------------------------------------- tags
def tag_arrays(mesh):
    subs = dict(mesh.subdomains) if mesh.subdomains else {}
    bnds = dict(mesh.boundaries) if mesh.boundaries else {}
    return subs, bnds


def index_problems(arr, n):
    a = np.asarray(arr)
    if a.size == 0:
        return None
    if not np.issubdtype(a.dtype, np.integer):
        return ("non-integer-dtype", str(a.dtype))
    if a.min() < 0 or a.max() >= n:
        return ("out-of-range", int(a.min()), int(a.max()), int(n))
    if np.unique(a).size != a.size:
        return ("repeated-index", int(a.size - np.unique(a).size))
    return None


def sub_geo(st, idx):
    return {st.ckey(int(c)) for c in np.asarray(idx).ravel()}


def bnd_geo(st, idx):
    return {st.fkey(int(f)) for f in np.asarray(idx).ravel()}


def is_oriented(arr):
    """An OrientedBoundary that actually carries flags (a view that lost them counts as a plain array)."""
    return type(arr).__name__ == "OrientedBoundary" and getattr(arr, "ori", None) is not None


def ori_pairs(st, arr, P=None):
    """What an oriented tag designates: {(facet key, key of the cell mesh.f2t[ori, f])}.  The cell is None where
    the flag points at the missing neighbour of a boundary facet.  `P` overrides the node coordinates (images
    under a map that keeps the connectivity).  None if flags and indices do not pair up."""
    idx = np.asarray(arr).ravel()
    ori = np.asarray(arr.ori).ravel()
    if idx.size != ori.size or (ori.size and (ori.min() < 0 or ori.max() > 1)):
        return None
    P = st.P if P is None else P
    fc, f2t, t = np.asarray(st.mesh.facets), np.asarray(st.mesh.f2t), st.t
    out = set()
    for f, o in zip(idx.tolist(), ori.tolist()):
        c = int(f2t[o, f])
        out.add((frozenset(P[v] for v in fc[:, f]), None if c < 0 else frozenset(P[v] for v in t[:, c])))
    return out


def oriented_like(st_old, arr, st_new, facet_of):
    """Rebuild the oriented tag `arr` of st_old on st_new (same cells in the same order, other vertex/facet
    numbers): entry (f, flag) becomes the facet of the SAME owner cell with the same vertices (`facet_of(owner,
    f)` -> facet number in st_new) and the flag under which st_new lists that cell."""
    from skfem.generic_utils import OrientedBoundary
    f2t_o, f2t_n = np.asarray(st_old.mesh.f2t), np.asarray(st_new.mesh.f2t)
    idx, ori = [], []
    for f, o in zip(np.asarray(arr).ravel().tolist(), np.asarray(arr.ori).ravel().tolist()):
        owner = int(f2t_o[o, f])
        if owner < 0:
            continue
        f2 = facet_of(owner, f)
        idx.append(f2)
        ori.append(0 if int(f2t_n[0, f2]) == owner else 1)
    return OrientedBoundary(np.array(idx, dtype=np.int64), np.array(ori, dtype=np.int64))


def random_tags(rng, st, oriented=True):
    """Index-array tags: subdomains (int32 sorted / int64 unsorted) and boundaries (any facets incl. interior
    ones, boundary-only, an OrientedBoundary around a subdomain)."""
    from skfem.generic_utils import OrientedBoundary
    m = st.mesh
    nt, nf = st.nt, int(m.facets.shape[1])
    subs, bnds = {}, {}
    k = int(rng.integers(1, max(2, nt)))
    subs["sA"] = np.sort(rng.choice(nt, size=min(nt, k), replace=False)).astype(np.int32)
    if rng.random() < 0.7:
        k = int(rng.integers(1, max(2, nt // 2 + 1)))
        subs["sB"] = rng.choice(nt, size=k, replace=False).astype(np.int64)
    k = int(rng.integers(1, max(2, nf // 2 + 1)))
    bnds["bA"] = rng.choice(nf, size=k, replace=False).astype(np.int32)
    bf = np.asarray(m.boundary_facets())
    if bf.size:
        k = int(rng.integers(1, bf.size + 1))
        bnds["bB"] = np.sort(rng.choice(bf, size=k, replace=False)).astype(np.int64)
    if oriented and rng.random() < 0.5:
        ob = m.facets_around(subs["sA"])
        if len(ob):
            bnds["bO"] = OrientedBoundary(np.asarray(ob), ob.ori)
    return subs, bnds


def attach_tags(mesh, subs, bnds):
    """Tags attached through the dataclass fields (not through with_*; that path has its own family)."""
    from dataclasses import replace
    return replace(mesh, _subdomains=dict(subs) if subs else None, _boundaries=dict(bnds) if bnds else None)


def tag_kinds(subs, bnds):
    k = []
    if subs:
        k.append("sub")
    if bnds:
        k.append("bnd")
    if any(type(v).__name__ == "OrientedBoundary" for v in bnds.values()):
        k.append("oriented")
    return "+".join(k) or "none"


# ------------------------------------------------------------------- mesh input
def dyadic_shift(p, cap=40):
    """Smallest k with p * 2^k integral (None if > cap)."""
    q = np.asarray(p, dtype=float)
    for k in range(cap + 1):
        if np.all(q == np.round(q)):
            return k
        q = q * 2
    return None


def coarse_coordinates(p, bits=8):
    """Scale by a power of two so that all coordinates are multiples of 2^-bits (exact in 8 decimals)."""
    k = dyadic_shift(p)
    if k is None:
        return None
    return p * 2.0 ** max(0, k - bits), max(0, k - bits)


def rebuild(cls, p, t, **kw):
    return cls(np.array(p, dtype=float), np.array(t), **kw)


def _perm_parity(seq):
    """Parity (+1/-1) of the permutation that sorts `seq` (distinct entries)."""
    seq = list(seq)
    sign = 1
    for i in range(len(seq)):
        for j in range(i + 1, len(seq)):
            if seq[i] > seq[j]:
                sign = -sign
    return sign


def consistently_oriented(st):
    """True iff, after normalising every cell to positive orientation, the two cells of every interior facet
    induce opposite orientations on it (tri/tet/quad): the cells lie on opposite sides of each shared facet,
    i.e. the mesh is not folded over itself.  Facets with more than two cells: False."""
    t = st.t
    induced = {}
    for c in range(st.nt):
        col = [int(v) for v in t[:, c]]
        if st.kind == "quad":
            s = quad_signed(st.ctuple(c))
        else:
            s = simplex_signed(st.ctuple(c))
        if s == 0:
            return False
        sc = 1 if s > 0 else -1
        if st.kind == "quad":
            for i in range(4):
                a, b = col[i], col[(i + 1) % 4]
                induced.setdefault((min(a, b), max(a, b)), []).append(sc * (1 if a < b else -1))
        else:
            for i in range(len(col)):
                rest = col[:i] + col[i + 1:]
                induced.setdefault(tuple(sorted(rest)), []).append(sc * (-1) ** i * _perm_parity(rest))
    for v in induced.values():
        if len(v) > 2 or (len(v) == 2 and v[0] == v[1]):
            return False
    return True
