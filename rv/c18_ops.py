"""Operation checkers of the C18 monitor.  Each `op_*` runs ONE surgery operation of the library on
an input state and evaluates its oracle relative to that input (so sequences of operations are judged
step by step whatever the history of the input object is).  Returns the new state (or None when the
result cannot be used further).

Monitor names (one per clause of the property):
  result-valid                 is_valid() and the harness' own validity check
  cells-are-expected-point-sets  every result cell is (the image of) an input cell
  measure-exact                total exact (Fraction) measure preserved / scaled by |det| / product
  coordinates-transformed      new.p == T(old.p)
  index-map-new-to-old         returned maps relate new to old numbering
  shared-vertex-structure      connectivity preserved up to the map; coincident vertices merged
  subdomains-carried / boundaries-carried / removed-tags-vanish
  split-children-tile-parent   to_meshtri / to_meshtet
  split-conforming             children of neighbouring cells meet along whole facets
  extrusion-is-product
  tags-assigned                with_boundaries / with_subdomains / with_defaults
  smoothing-averages-neighbours, orientation-positive, trace-cells-are-facets
  orientation-carried          a result tag that is an OrientedBoundary designates the input's (facet, cell) pairs
"""
from __future__ import annotations

import itertools
from fractions import Fraction

import numpy as np

from . import exact as X
from .c18_geom import (St, attach_tags, bnd_geo, consistently_oriented, hex_faces_planar, index_problems, is_oriented,
                       lib_is_valid, measure_of, ori_pairs, oriented_like, own_validity, quad_signed,
                       quad_strictly_convex, random_tags, simplex_signed, sub_geo, tag_arrays, tag_kinds,
                       wedge_faces_planar)
from .gen import meshes as G

F = Fraction

# mechanism keys of confirmed library defects (each is computed with an explicit predicate below)
M_MATMUL = "matmul-offsets-every-mesh-by-size-of-first"
M_ADD_ROUND = "add-rounds-coordinates-to-8-decimals"
M_DEDUP_STALE = "remove-duplicate-nodes-keeps-stale-facet-indices"
M_O2_STRUCT = "second-order-surgery-treats-doflocs-as-vertices"
M_O2_SMOOTH = "second-order-smoothed-divides-by-zero-neighbours"
M_EXTR_GAPS = "extrusion-ignores-line-connectivity"
M_EXTR_NVERT = "extrusion-offsets-by-max-t-not-point-count"
M_TRI_X = "to-meshtri-x-numbers-centroids-from-max-t"
M_TRI_EMPTY = "to-meshtri-empty-boundary-tag-becomes-float-array"
M_ORI_STALE = "oriented:oriented-tag-flags-stale-after-cell-flip"

# Suspected genuine library defects found by checks that were added after the last triage: the check classifies
# them with the narrow mechanism key below and stays silent (counted under reach point `report-only:<mech>`).
REPORT_ONLY = set()      # (the oriented() flag defect it held was repaired in the library: ff407a3)


def _sorted_cols(a):
    return np.sort(np.asarray(a), axis=0)


# ------------------------------------------------------------------ tag carry-over
def check_tags(ctx, op, new, exp_sub, exp_bnd, /, mech_sub=None, mech_bnd=None, exp_ori=None, ori_mode="subset",
               ori_mech=None, judge_bnd=True, **info):
    """exp_sub / exp_bnd: {name: set of geometric keys} that the result must designate.
    exp_ori: {name: set of (facet key, owner cell key)} for the input tags that were oriented; judged only when
    the result tag is oriented as well (dropping the flags is legitimate), see check_orientation."""
    info.setdefault("op", op)
    nsub, nbnd = tag_arrays(new.mesh)
    nf = int(np.asarray(new.mesh.facets).shape[1]) if judge_bnd and (exp_bnd or nbnd) else 0
    for what, exp, got_arrays, n, geo, mon, mech in (
            ("sub", exp_sub, nsub, new.nt, sub_geo, "subdomains-carried", mech_sub),
            ("bnd", exp_bnd, nbnd, nf, bnd_geo, "boundaries-carried", mech_bnd)):
        if what == "bnd" and not judge_bnd:
            continue
        for name, want in exp.items():
            arr = got_arrays.get(name)
            if arr is None:
                ctx.check(mon, not want, mech=mech or f"{op}:{what}-tag-dropped:{new.kind}", name=name,
                          expected=len(want), **info)
                continue
            prob = index_problems(arr, n)
            if prob is not None and prob[0] == "repeated-index" and what == "bnd" and is_oriented(arr) and \
                    _distinct_oriented_entries(arr):
                # one facet seen from both sides: (f, 0) and (f, 1) are two entries of an oriented tag
                ctx.reached("oriented-tag-lists-a-facet-from-both-sides")
                got, prob = geo(new, arr), None
            else:
                got = geo(new, arr) if prob is None or prob[0] == "repeated-index" else set()
            ctx.check(mon, want <= got, mech=mech or f"{op}:{what}-tag-lost-entities:{new.kind}", name=name,
                      missing=lambda: len(want - got), expected=len(want), got=len(got), index_problem=prob, **info)
            ctx.check("removed-tags-vanish", prob is None and got <= want,
                      mech=mech or f"{op}:{what}-tag-designates-wrong-entities:{new.kind}", name=name,
                      extra=lambda: len(got - want), expected=len(want), got=len(got), index_problem=prob, **info)
        for name in got_arrays:
            if name not in exp:
                ctx.check("removed-tags-vanish", False, mech=f"{op}:{what}-tag-invented:{new.kind}", name=name)
    if judge_bnd:
        check_orientation(ctx, op, new, nbnd, exp_ori or {}, ori_mode, nf, ori_mech, **info)


def check_tags_under_finding(ctx, op, new, exp_sub, exp_bnd, /, **kw):
    """Second-order result of a structural operation (open finding: the non-vertex nodes are lost).  The vertex
    skeleton and the tags are still judged: cells and facets are designated through the vertex rows of t and
    through mesh.facets, which do not involve the lost nodes.  A result whose tables cannot be built is dropped."""
    try:
        ok = new.t.size > 0 and int(new.t.min()) >= 0 and int(new.t.max()) < len(new.P)
    except Exception:
        ok = False
    if not ok:
        ctx.drop("second-order-result-without-usable-connectivity")
        return
    try:
        np.asarray(new.mesh.facets)
        np.asarray(new.mesh.f2t)
        judge_bnd = True
    except Exception:
        ctx.drop("second-order-result-without-usable-facet-table")
        judge_bnd = False
    check_tags(ctx, op, new, exp_sub, exp_bnd, judge_bnd=judge_bnd, **kw)
    ctx.reached("tags-judged-under-second-order-finding")


def exp_orientation(old, obnd, P=None):
    """{name: designated (facet, cell) pairs} of the oriented input tags."""
    out = {}
    for name, a in obnd.items():
        if is_oriented(a):
            pairs = ori_pairs(old, a, P)
            if pairs is not None:
                out[name] = pairs
    return out


def _distinct_oriented_entries(arr):
    idx, ori = np.asarray(arr).ravel(), np.asarray(arr.ori).ravel()
    if idx.size != ori.size:
        return False
    return len(set(zip(idx.tolist(), ori.tolist()))) == idx.size


def check_orientation(ctx, op, new, nbnd, exp_ori, mode, nf, ori_mech=None, /, **info):
    """Conditional oracle for oriented tags.  Whenever a boundary tag of the result is an OrientedBoundary: one
    flag per index, flags in {0, 1}, and every (facet, cell on the flagged side) it designates is one the input
    tag designated (mode 'subset': operations that remove cells; mode 'equal': operations that keep all cells)."""
    mon = "orientation-carried"
    for name, arr in nbnd.items():
        if type(arr).__name__ != "OrientedBoundary":
            if name in exp_ori:
                ctx.reached("observed:orientation-dropped:" + op.split(":")[0])
            continue
        idx = np.asarray(arr).ravel()
        ori = getattr(arr, "ori", None)
        okshape = ori is not None and np.asarray(ori).shape == idx.shape and \
            (idx.size == 0 or (int(np.min(ori)) >= 0 and int(np.max(ori)) <= 1))
        ctx.check(mon, okshape, mech=f"{op}:oriented-tag-flags-do-not-pair-with-indices:{new.kind}", name=name,
                  indices=int(idx.size), flags=None if ori is None else int(np.asarray(ori).size), **info)
        if not okshape or name not in exp_ori:
            continue
        if idx.size and (idx.min() < 0 or idx.max() >= nf):
            continue                                  # judged as an index problem by the carry-over monitors
        want = exp_ori[name]
        got = ori_pairs(new, arr)
        outside = {pr for pr in got if pr[1] is None} - want
        if outside and mode == "subset":
            # the flagged cell was removed, the facet stayed: nothing is left that the flag could designate
            ctx.tolerated(mon, 1)
            got = got - outside
        good = got <= want if mode == "subset" else got == want
        mech = None
        if not good and ori_mech is not None:
            mech = ori_mech(name, arr)
        if mech in REPORT_ONLY:
            ctx.reached("report-only:" + mech)
            ctx.tolerated(mon, 1)
            continue
        ctx.check(mon, good, mech=mech or f"{op}:oriented-tag-designates-other-side:{new.kind}", name=name,
                  ori_mode=mode, wrong=lambda: len(got - want), missing=lambda: len(want - got),
                  entries=int(idx.size), **info)
        ctx.reached("oriented-tag-judged:" + op.split(":")[0])


def check_orientation_identical(ctx, op, old_bnd, new_bnd, kind, /, **info):
    """Operations that keep cells, connectivity and numbering (coordinate maps, tagging): an oriented tag comes
    back as the same pair of arrays."""
    for name, a in old_bnd.items():
        if not is_oriented(a) or name not in new_bnd:
            continue
        b = new_bnd[name]
        same = is_oriented(b) and np.array_equal(np.asarray(a), np.asarray(b)) and \
            np.array_equal(np.asarray(a.ori), np.asarray(b.ori))
        ctx.check("orientation-carried", same, mech=f"{op}:oriented-tag-arrays-changed:{kind}", name=name,
                  result_type=type(b).__name__, **info)
        ctx.reached("oriented-tag-identical-judged")


def check_optional_tags(ctx, op, new, exp_sub, exp_bnd, /, **info):
    """For operations that are free to return an untagged mesh (+, @, *, to_meshtet, trace): absence of a name is
    accepted and counted; a name that IS present and came from an operand must designate exactly the images of
    the operand's entities.  exp_*: {name: [acceptable sets of geometric keys]} (several when the same name
    arrives from two operands).  Names of unknown origin: the index array must at least be well formed."""
    info.setdefault("op", op)
    nsub, nbnd = tag_arrays(new.mesh)
    opn = op.split(":")[0]
    if (exp_sub or exp_bnd) and not nsub and not nbnd:
        ctx.reached("observed:tags-not-carried:" + opn)
    nf = None
    for what, exp, got_arrays, geo, mon in (("sub", exp_sub, nsub, sub_geo, "subdomains-carried"),
                                            ("bnd", exp_bnd, nbnd, bnd_geo, "boundaries-carried")):
        for name in exp:
            if name not in got_arrays:
                ctx.tolerated(mon, 1)
        for name, arr in got_arrays.items():
            if what == "sub":
                n = new.nt
            else:
                try:
                    nf = int(np.asarray(new.mesh.facets).shape[1]) if nf is None else nf
                except Exception:
                    ctx.drop("facets-of-result-not-available")
                    continue
                n = nf
            prob = index_problems(arr, n)
            if name not in exp:
                ctx.check("removed-tags-vanish", prob is None, mech=f"{opn}:{what}-tag-of-unknown-origin-malformed:{new.kind}",
                          name=name, index_problem=prob, **info)
                continue
            got = geo(new, arr) if prob is None else set()
            ctx.check(mon, prob is None and any(got == w for w in exp[name]),
                      mech=f"{opn}:{what}-tag-carried-with-wrong-entities:{new.kind}", name=name, got=len(got),
                      acceptable=[len(w) for w in exp[name]], index_problem=prob, **info)
            ctx.reached("carried-tag-judged:" + opn)


def operand_tags(rng, st, suffix="", shared=("sA", "bA")):
    """The state with random tags attached; names other than `shared` get the suffix (so that two operands of a
    join carry one common and several private names)."""
    subs, bnds = random_tags(rng, st)
    ren = lambda d: {(k if (k in shared or not suffix) else k + suffix): v for k, v in d.items()}  # noqa: E731
    s2 = St(attach_tags(st.mesh, ren(subs), ren(bnds)), st.kind, st.order)
    s2._P, s2._topo = st._P, st._topo
    return s2


def _accept_from(operands, geo, which):
    """{name: [acceptable image sets]} for tags of several operands that end up in ONE mesh."""
    per = {}
    for st in operands:
        for name, arr in tag_arrays(st.mesh)[which].items():
            per.setdefault(name, []).append(geo(st, arr))
    out = {}
    for name, sets in per.items():
        acc = list(sets)
        if len(sets) > 1:
            acc.append(set().union(*sets))
        out[name] = acc
    return out


def has_unused(st):
    """A first-order state some of whose nodes belong to no cell (e.g. one of the meshes returned by `@`)."""
    return st.order == 1 and int(np.unique(st.t).size) != int(np.asarray(st.mesh.p).shape[1])


def check_valid(ctx, op, new, mech=None, lib=True, like=None, **kw):
    """like: the input state; operations that keep the node array hand unused nodes of the input over, which is
    no defect of the operation (Mesh.is_valid() is False for such meshes by definition: not consulted)."""
    if like is not None and has_unused(like):
        kw["allow_unused"] = True
        lib = False
    probs = own_validity(new, **kw)
    libv = lib_is_valid(new.mesh) if (lib and new.order == 1) else True
    ok = not probs and libv is True
    ctx.check("result-valid", ok, mech=mech or f"{op}:invalid-result:{new.kind}{new.order}", op=op, cls=new.cls,
              problems=probs, is_valid=libv)
    return ok


def o2_struct_predicate(old, new_mesh):
    """Recorded mechanism: a structural operation on a second-order mesh handles `doflocs` as if it held
    vertices only (non-vertex nodes dropped, or all nodes renumbered by np.unique)."""
    if old.order != 2:
        return False
    try:
        st = St(new_mesh, old.kind, 2)
        probs = own_validity(st, need_measure=False)
    except Exception:
        return True
    return any(p[0] in ("node-count", "vertex-numbers-not-leading") for p in probs)


# ------------------------------------------------------------------------ subsets
def halfspace(rng, st, cells=None):
    """A predicate x -> a.x < c on midpoints together with the set it selects, decided exactly; c keeps a
    relative distance >= 2^-30 from every centroid so that float evaluation cannot disagree."""
    d = st.dim
    for _ in range(20):
        a = rng.integers(-4, 5, size=d)
        if not a.any():
            continue
        vals = [sum(F(int(ai)) * ci for ai, ci in zip(a, st.centroid(c))) for c in range(st.nt)]
        lo, hi = min(vals), max(vals)
        if lo == hi:
            continue
        c = lo + (hi - lo) * F(int(rng.integers(1, 64)), 64)
        c = F(float(c))
        if any(abs(v - c) * 2 ** 30 < (hi - lo) for v in vals):
            continue
        sel = [i for i, v in enumerate(vals) if v < c]
        if not sel or len(sel) == st.nt:
            continue
        af = a.astype(float)
        cf = float(c)
        return (lambda x, af=af, cf=cf: sum(af[i] * x[i] for i in range(len(af))) < cf), np.array(sel), \
            {"a": a.tolist(), "c": cf}
    return None, None, None


def subset_argument(rng, st, allow_all=False):
    """Returns (argument to pass, expected index array in result order, form name)."""
    nt = st.nt
    subs, _ = tag_arrays(st.mesh)
    forms = ["int32-sorted", "int64-unsorted", "predicate", "list-mixed", "tuple-arrays", "readonly-view"]
    if subs:
        forms += ["name", "name-set", "name"]
    if allow_all:
        forms.append("true")
    if nt > 1:
        forms.append("int")
    form = str(rng.choice(forms))
    k = int(rng.integers(1, nt)) if nt > 1 else 1
    if form == "int32-sorted":
        e = np.sort(rng.choice(nt, size=k, replace=False)).astype(np.int32)
        return e, e, form
    if form == "int64-unsorted":
        e = rng.choice(nt, size=k, replace=False).astype(np.int64)
        return e, e, form
    if form == "readonly-view":
        base = np.zeros(2 * k, dtype=np.int64)
        base[::2] = rng.choice(nt, size=k, replace=False)
        e = base[::2]
        e.setflags(write=False)
        return e, np.array(e), form
    if form == "predicate":
        fn, sel, _ = halfspace(rng, st)
        if fn is not None:
            return fn, sel, form
        e = np.arange(k, dtype=np.int32)
        return e, e, "int32-sorted"
    if form == "list-mixed":
        a = rng.choice(nt, size=k, replace=False).astype(np.int32)
        b = rng.choice(nt, size=max(1, k // 2), replace=False).astype(np.int64)
        parts = [a, b]
        exp = set(a.tolist()) | set(b.tolist())
        if subs and rng.random() < 0.5:
            nm = sorted(subs)[0]
            parts.append(nm)
            exp |= set(np.asarray(subs[nm]).tolist())
        return parts, np.array(sorted(exp)), form
    if form == "tuple-arrays":
        a = rng.choice(nt, size=k, replace=False).astype(np.int32)
        b = np.array([int(rng.integers(nt))], dtype=np.int32)
        return (a, b), np.array(sorted(set(a.tolist()) | set(b.tolist()))), form
    if form == "name":
        nm = str(rng.choice(sorted(subs)))
        e = np.asarray(subs[nm])
        return nm, e, form
    if form == "name-set":
        exp = set()
        for nm in subs:
            exp |= set(np.asarray(subs[nm]).tolist())
        return set(subs), np.array(sorted(exp)), form
    if form == "int":
        i = int(rng.integers(nt))
        return i, np.array([i]), form
    return True, np.arange(nt), "true"


# ------------------------------------------------------------- restrict / remove
def op_restrict(ctx, rng, old, remove=None):
    m = old.mesh
    osub, obnd = tag_arrays(m)
    remove = (rng.random() < 0.3) if remove is None else remove
    arg, sel, form = subset_argument(rng, old, allow_all=not remove)
    sel = np.asarray(sel).astype(np.int64)
    if remove:
        E = np.setdiff1d(np.arange(old.nt), sel)
        if E.size == 0:
            ctx.drop("remove-would-empty-the-mesh")
            return old
        op = "remove_elements"
        skip_b = skip_s = False
        new_mesh, ix = m.remove_elements(arg), None
    else:
        E = sel
        if E.size == 0:
            ctx.drop("empty-subset")
            return old
        op = "restrict"
        skip_b, skip_s = bool(rng.random() < 0.1), bool(rng.random() < 0.1)
        if rng.random() < 0.7:
            new_mesh, ix = m.restrict(arg, return_mapping=True, skip_boundaries=skip_b, skip_subdomains=skip_s)
        else:
            new_mesh, ix = m.restrict(arg, skip_boundaries=skip_b, skip_subdomains=skip_s), None
    ctx.reached("op:" + op)
    info = {"op": op, "cls": old.cls, "form": form, "ncells": old.nt, "kept": int(E.size)}
    ctx.check("result-valid", type(new_mesh) is type(m), mech=f"{op}:class-changed", **info,
              got=type(new_mesh).__name__)
    new = St(new_mesh, old.kind, old.order)
    struct_mech = M_O2_STRUCT if o2_struct_predicate(old, new_mesh) else None
    valid = check_valid(ctx, op, new, mech=struct_mech, need_measure=(old.order == 1),
                        allow_duplicates=False)
    if struct_mech:
        ctx.reached("second-order-structural-op")
    # cells: result cell i is input cell E[i]
    ok = new.nt == E.size
    bad = None
    if ok:
        for i, c in enumerate(E):
            same = (new.ckey(i) == old.ckey(c)) if old.sorted_cells else (new.ctuple(i) == old.ctuple(c))
            if not same:
                ok, bad = False, (int(i), int(c))
                break
    ctx.check("cells-are-expected-point-sets", ok, mech=f"{op}:cells:{old.kind}", first_bad=bad, **info)
    if ix is not None:
        ix = np.asarray(ix)
        good = ix.ndim == 1 and ix.size >= np.asarray(new_mesh.p).shape[1] and ix.size > 0 and \
            ix.max() < m.p.shape[1] and ix.min() >= 0
        if good and old.order == 1:
            good = ix.size == new_mesh.p.shape[1] and np.array_equal(np.asarray(new_mesh.p), np.asarray(m.p)[:, ix])
        elif good:
            nvx = ix.size  # second order: the map covers the vertices
            good = np.array_equal(np.asarray(new_mesh.p)[:, :nvx], np.asarray(m.p)[:, ix])
        ctx.check("index-map-new-to-old", good, mech=f"{op}:vertex-map:{old.kind}", **info)
        if good:
            a, b = ix[new.t], old.t[:, E]
            if old.sorted_cells:
                a, b = _sorted_cols(a), _sorted_cols(b)
            ctx.check("shared-vertex-structure", np.array_equal(a, b), mech=f"{op}:connectivity-through-map:{old.kind}",
                      **info)
    if old.order == 1 and valid:
        mu_new, mu_old = new.measure(), old.measure(E)
        if mu_new is None or mu_old is None:
            ctx.drop("measure-undefined(folded-cell)")
        else:
            ctx.check("measure-exact", mu_new == mu_old, mech=f"{op}:measure:{old.kind}", got=float(mu_new),
                      ref=float(mu_old), **info)
    # tags
    Eset = set(E.tolist())
    exp_sub = {} if skip_s else {k: {old.ckey(int(c)) for c in np.asarray(v).ravel() if int(c) in Eset}
                                 for k, v in osub.items()}
    kept_facets = old.cell_facet_vertex_sets(E) if (obnd and not skip_b) else set()
    exp_bnd = {} if skip_b else {k: {old.fkey(int(f)) for f in np.asarray(v).ravel() if old.fverts(int(f)) in kept_facets}
                                 for k, v in obnd.items()}
    (check_tags if (struct_mech is None or old.order == 1) else check_tags_under_finding)(
        ctx, op, new, exp_sub, exp_bnd, exp_ori=({} if skip_b else exp_orientation(old, obnd)), ori_mode="subset",
        **info)
    removed_tagged = any(len(exp_sub[k]) < len(set(np.asarray(v).tolist())) for k, v in osub.items() if k in exp_sub) \
        or any(len(exp_bnd[k]) < len(set(np.asarray(v).tolist())) for k, v in obnd.items() if k in exp_bnd)
    unused = len(set(old.t[:, E].ravel().tolist())) < len(set(old.t.ravel().tolist()))
    if unused or removed_tagged:
        ctx.nontrivial(op, old.cls, tag_kinds(osub, obnd), form)
    if removed_tagged:
        ctx.reached("tagged-entity-removed")
    if unused:
        ctx.reached("vertex-becomes-unused")
    if any(type(v).__name__ == "OrientedBoundary" for v in obnd.values()) and not skip_b:
        nb = tag_arrays(new_mesh)[1]
        if any(getattr(v, "ori", None) is None for v in nb.values()):
            ctx.reached("observed:oriented-boundary-orientation-not-carried")
    ctx.sample({"op": op, "cls": old.cls, "form": form, "ncells": old.nt, "kept": int(E.size),
                "tags": tag_kinds(osub, obnd), "unused_vertices": bool(unused), "tag_removed": bool(removed_tagged)})
    if struct_mech or not valid:
        return None
    return new


# ----------------------------------------------------- unused / duplicate vertices
def with_unused_nodes(rng, st):
    """Same cells and tags, extra nodes inserted at random positions of the numbering."""
    m = st.mesh
    p, t = np.asarray(m.p), np.asarray(m.t)
    n = p.shape[1]
    k = int(rng.integers(1, 5))
    total = n + k
    pos_old = np.sort(rng.choice(total, size=n, replace=False))
    p2 = np.full((p.shape[0], total), 7.0) + rng.integers(0, 64, size=(p.shape[0], total)) / 8.0
    p2[:, pos_old] = p
    t2 = pos_old[t]
    subs, bnds = tag_arrays(m)
    m2 = attach_tags(type(m)(p2, t2), subs, {})
    # facet numbering is order preserving under a monotone vertex map: re-attach boundaries geometrically
    s2 = St(m2, st.kind, st.order)
    if bnds:
        look = {s2.fverts(f): f for f in range(int(m2.facets.shape[1]))}
        nb = {}
        for name, arr in bnds.items():
            if is_oriented(arr):
                # cells keep their numbers: the flag is the row of f2t that lists the same owner cell
                nb[name] = oriented_like(st, arr, s2, lambda owner, f: look[frozenset(int(pos_old[v])
                                                                                        for v in st.fverts(int(f)))])
                continue
            nb[name] = np.array([look[frozenset(int(pos_old[v]) for v in st.fverts(int(f)))]
                                 for f in np.asarray(arr).ravel()], dtype=np.int64)
        m2 = attach_tags(m2, subs, nb)
    return St(m2, st.kind, st.order), k


def op_remove_unused(ctx, rng, old0):
    if old0.order != 1:
        return _o2_cleanup(ctx, old0, "remove_unused_nodes")
    old, k = with_unused_nodes(rng, old0)
    op = "remove_unused_nodes"
    new_mesh = old.mesh.remove_unused_nodes()
    ctx.reached("op:" + op)
    new = St(new_mesh, old.kind, old.order)
    info = {"op": op, "cls": old.cls, "unused": k, "ncells": old.nt}
    valid = check_valid(ctx, op, new)
    used = np.unique(old.t)
    ctx.check("index-map-new-to-old", np.array_equal(np.asarray(new_mesh.p), np.asarray(old.mesh.p)[:, used]),
              mech=f"{op}:kept-vertices-in-order:{old.kind}", **info)
    _same_cells(ctx, op, old, new, info)
    _same_measure(ctx, op, old, new, info)
    osub, obnd = tag_arrays(old.mesh)
    check_tags(ctx, op, new, {k_: sub_geo(old, v) for k_, v in osub.items()},
               {k_: bnd_geo(old, v) for k_, v in obnd.items()}, exp_ori=exp_orientation(old, obnd), ori_mode="equal",
               **info)
    ctx.nontrivial(op, old.cls, tag_kinds(osub, obnd))
    ctx.reached("vertex-becomes-unused")
    return new if valid else None


def _o2_cleanup(ctx, old, op):
    new_mesh = getattr(old.mesh, op)()
    ctx.reached("op:" + op)
    new = St(new_mesh, old.kind, 2)
    mech = M_O2_STRUCT if o2_struct_predicate(old, new_mesh) else None
    check_valid(ctx, op, new, mech=mech, need_measure=False)
    if mech:
        ctx.reached("second-order-structural-op")
    # the vertex skeleton and the tags are judged whatever happened to the non-vertex nodes
    info = {"op": op, "cls": old.cls, "ncells": old.nt}
    if _skeleton_usable(ctx, new):
        _same_cells(ctx, op, old, new, info, mech=f"{op}:skeleton-cells:{old.kind}2")
        ctx.reached("skeleton-judged-under-second-order-finding")
        osub, obnd = tag_arrays(old.mesh)
        if osub or obnd:
            check_tags_under_finding(ctx, op, new, {k_: sub_geo(old, v) for k_, v in osub.items()},
                                     {k_: bnd_geo(old, v) for k_, v in obnd.items()},
                                     exp_ori=exp_orientation(old, obnd), ori_mode="equal", **info)
    return None


def _skeleton_usable(ctx, new):
    try:
        ok = new.t.size > 0 and int(new.t.min()) >= 0 and int(new.t.max()) < len(new.P)
    except Exception:
        ok = False
    if not ok:
        ctx.drop("second-order-result-without-usable-connectivity")
    return ok


def _same_cells(ctx, op, old, new, info, mech=None):
    ok = new.nt == old.nt
    bad = None
    if ok:
        for c in range(old.nt):
            same = (new.ckey(c) == old.ckey(c)) if old.sorted_cells else (new.ctuple(c) == old.ctuple(c))
            if not same:
                ok, bad = False, c
                break
    ctx.check("cells-are-expected-point-sets", ok, mech=mech or f"{op}:cells:{old.kind}", first_bad=bad, **info)
    return ok


def _same_measure(ctx, op, old, new, info, factor=F(1), exact=True, mech=None):
    if old.order != 1:
        return
    mo, mn = old.measure(), new.measure()
    if mo is None or mn is None:
        ctx.drop("measure-undefined(folded-cell)")
        return
    if exact:
        ctx.check("measure-exact", mn == mo * factor, mech=mech or f"{op}:measure:{old.kind}", got=float(mn),
                  ref=float(mo * factor), **info)
    else:
        # rounded coordinates: the measure of a cell of diameter h at distance |x| from the origin is known to
        # eps*|x|/width relative (width = thinnest direction); 1e-11 is the floor for meshes of unit scale (a history of inexact maps may leave the
        # mesh far from the origin)
        Pn = np.asarray(new.mesh.p, dtype=float)
        tn = np.asarray(new.mesh.t)[:new.nv]
        ext = Pn[:, tn]                                   # (dim, nv, nt)
        diam = float((ext.max(axis=1) - ext.min(axis=1)).max()) if tn.size else 1.0
        # thinnest direction of an average cell: measure / diameter^(d-1)
        width = abs(float(mn)) / max(new.nt, 1) / max(diam, 1e-300) ** (old.dim - 1)
        cond = float(np.abs(Pn).max()) / max(width, 1e-300) if Pn.size else 1.0
        ctx.close("measure-exact", float(mn), float(mo * factor), rtol=max(1e-11, 64 * 2.3e-16 * cond * old.dim),
                  mech=mech or f"{op}:measure:{old.kind}", **info)


def with_duplicate_nodes(rng, st):
    """Cells of a random subset get private copies of the vertices they share with the rest.  Returns the
    state with duplicates (tags re-attached geometrically: every tagged facet keeps one representative)."""
    m = st.mesh
    p, t = np.asarray(m.p), np.asarray(m.t).copy()
    nt = st.nt
    B = np.zeros(nt, dtype=bool)
    B[rng.choice(nt, size=max(1, nt // 2), replace=False)] = True
    if B.all():
        B[0] = False
    vB = set(t[:, B].ravel().tolist())
    vA = set(t[:, ~B].ravel().tolist())
    shared = sorted(vB & vA)
    if not shared:
        return None, 0
    n = p.shape[1]
    # copies are placed in FRONT of the originals so that np.unique's "first occurrence" is not the identity
    front = bool(rng.random() < 0.5)
    if front:
        p2 = np.hstack((p[:, shared], p))
        t2 = t + len(shared)
        newid = {v: i for i, v in enumerate(shared)}
        for c in np.nonzero(B)[0]:
            t2[:, c] = [newid.get(int(v), int(v) + len(shared)) for v in t[:, c]]
    else:
        p2 = np.hstack((p, p[:, shared]))
        t2 = t.copy()
        newid = {v: n + i for i, v in enumerate(shared)}
        for c in np.nonzero(B)[0]:
            t2[:, c] = [newid.get(int(v), int(v)) for v in t[:, c]]
    subs, bnds = tag_arrays(m)
    m2 = type(m)(p2, t2)
    s2 = St(m2, st.kind, st.order)
    nb = {}
    if bnds:
        look = {}
        for f in range(int(m2.facets.shape[1])):
            look.setdefault(s2.fkey(f), f)
        t2f2 = np.asarray(m2.t2f)

        def facet_of(owner, f):
            # the copy of the facet that belongs to the owner cell (an interface facet exists twice)
            want = st.fkey(int(f))
            return next(int(g) for g in t2f2[:, owner] if s2.fkey(int(g)) == want)
        for name, arr in bnds.items():
            if is_oriented(arr):
                nb[name] = oriented_like(st, arr, s2, facet_of)
                continue
            nb[name] = np.array([look[st.fkey(int(f))] for f in np.asarray(arr).ravel()], dtype=np.int64)
    m2 = attach_tags(m2, subs, nb)
    return St(m2, st.kind, st.order), len(shared)


def exploded(rng, st, tags=True):
    """Every cell gets private copies of all its vertices, numbered at random (a discontinuous mesh, an STL
    import): a vertex of valence n exists n times, every facet is a boundary facet, an interior facet of the
    original exists twice.  Subdomains are kept; a plain boundary tag designates one or both copies of each of
    its facets; an oriented tag designates the copy of the owner cell; one more oriented tag ('bBoth') lists both
    copies of some facets, i.e. the facet seen from both sides.  Returns (state, number of surplus nodes)."""
    from skfem.generic_utils import OrientedBoundary
    m = st.mesh
    p, t = np.asarray(m.p), st.t
    nv, nt = t.shape
    t2 = rng.permutation(nv * nt).reshape(nt, nv).T.astype(np.int64)
    p2 = np.empty((p.shape[0], nv * nt))
    p2[:, t2] = p[:, t]
    m2 = type(m)(p2, t2)
    s2 = St(m2, st.kind, 1)
    surplus = nv * nt - len(set(st.P[v] for v in np.unique(t)))
    if not tags:
        return s2, surplus
    subs, bnds = tag_arrays(m)
    copies = {}
    for g in range(int(np.asarray(m2.facets).shape[1])):
        copies.setdefault(s2.fkey(g), []).append(g)
    t2f2, f2t2 = np.asarray(m2.t2f), np.asarray(m2.f2t)

    def facet_of(owner, f):
        want = st.fkey(int(f))
        return next(int(g) for g in t2f2[:, owner] if s2.fkey(int(g)) == want)
    nb = {}
    for name, arr in bnds.items():
        if is_oriented(arr):
            nb[name] = oriented_like(st, arr, s2, facet_of)
            continue
        idx = []
        for f in np.asarray(arr).ravel():
            cs = copies[st.fkey(int(f))]
            idx.extend(cs if rng.random() < 0.6 else [cs[int(rng.integers(len(cs)))]])
        nb[name] = np.array(idx, dtype=np.int64)[rng.permutation(len(idx))]
    nf = int(np.asarray(m.facets).shape[1])
    if nf:
        both = []
        for f in rng.choice(nf, size=min(nf, int(rng.integers(1, 6))), replace=False):
            both.extend(copies[st.fkey(int(f))])
        both = np.array(both, dtype=np.int64)
        # every facet of the exploded mesh has one cell: flag 0
        if (f2t2[1, both] == -1).all():
            nb["bBoth"] = OrientedBoundary(both, np.zeros(both.size, dtype=np.int64))
    return St(attach_tags(m2, subs, nb), st.kind, 1), surplus


def op_remove_duplicates(ctx, rng, old0, explode=False):
    op = "remove_duplicate_nodes"
    if old0.order != 1:
        return _o2_cleanup(ctx, old0, op)
    if explode:
        old, k = exploded(rng, old0)
        if k == 0:
            ctx.drop("no-shared-vertices-to-duplicate")
            return old0
        ctx.reached("remove-duplicates-of-exploded-mesh")
        if any(n > 2 for n in np.bincount(old0.t.ravel())):
            ctx.reached("three-or-more-coincident-copies")
    else:
        old, k = with_duplicate_nodes(rng, old0)
    if old is None:
        ctx.drop("no-shared-vertices-to-duplicate")
        return old0
    new_mesh = old.mesh.remove_duplicate_nodes()
    ctx.reached("op:" + op)
    new = St(new_mesh, old.kind, 1)
    info = {"op": op, "cls": old.cls, "duplicates": k, "ncells": old.nt, "exploded": bool(explode)}
    valid = check_valid(ctx, op, new)
    ctx.check("shared-vertex-structure", set(new.P) == set(old.P) and len(set(new.P)) == len(new.P),
              mech=f"{op}:coincident-vertices-merged:{old.kind}", **info)
    _same_cells(ctx, op, old, new, info)
    _same_measure(ctx, op, old, new, info)
    osub, obnd = tag_arrays(old.mesh)
    nsub, nbnd = tag_arrays(new_mesh)
    # predicate of the recorded mechanism: the facet index arrays are handed over unchanged although the
    # vertex renumbering (np.unique of the coordinates) changed the facet numbering
    stale = bool(obnd) and all(k_ in nbnd and np.array_equal(np.asarray(nbnd[k_]), np.asarray(obnd[k_])) for k_ in obnd) \
        and not _facets_same_geometry(old, new)
    check_tags(ctx, op, new, {k_: sub_geo(old, v) for k_, v in osub.items()},
               {k_: bnd_geo(old, v) for k_, v in obnd.items()},
               mech_bnd=M_DEDUP_STALE if stale else None, exp_ori=exp_orientation(old, obnd), ori_mode="equal",
               **info)
    ctx.nontrivial(op, old.cls, tag_kinds(osub, obnd), "exploded" if explode else "partial")
    ctx.reached("coincident-vertices-merged")
    if explode and "bBoth" in obnd and is_oriented(nbnd.get("bBoth")) and \
            np.unique(np.asarray(nbnd["bBoth"])).size < np.asarray(nbnd["bBoth"]).size:
        ctx.reached("merged-facet-listed-from-both-sides")
    if not valid:
        return None
    # (an exploded input carries 'bBoth', an oriented tag with repeated facets: not a general-purpose input)
    return attach_clean(new, nsub) if explode else new


def attach_clean(new, subs):
    """Continue a sequence without the (possibly stale) boundary arrays."""
    return St(attach_tags(new.mesh, subs, {}), new.kind, new.order)


def _facets_same_geometry(old, new):
    fo, fn = np.asarray(old.mesh.facets), np.asarray(new.mesh.facets)
    if fo.shape != fn.shape:
        return False
    return all(old.fkey(f) == new.fkey(f) for f in range(fo.shape[1]))


# ------------------------------------------------------------------------- joins
def split_parts(rng, st, nparts=2, bits=8):
    """Cut a first-order mesh into `nparts` meshes of the same class that share the interface vertices
    (built directly from p/t, not through restrict).  Coordinates are rescaled by a power of two onto the
    2^-bits lattice when bits is given (then rounding to 8 decimals is the identity)."""
    m = st.mesh
    p, t = np.asarray(m.p).copy(), np.asarray(m.t)
    shift = 0
    if bits is not None:
        from .c18_geom import coarse_coordinates
        r = coarse_coordinates(p, bits)
        if r is None:
            return None
        p, shift = r
        if np.abs(p).max() > 2 ** 20:
            return None
    nt = st.nt
    if nt < nparts:
        return None
    label = rng.integers(0, nparts, size=nt)
    label[rng.choice(nt, size=nparts, replace=False)] = np.arange(nparts)
    parts = []
    for k in range(nparts):
        pk, tk = G.clean(p, t[:, label == k])
        if rng.random() < 0.5:
            pk, tk, _ = G.renumber(rng, pk, tk.astype(np.int64), st.kind, cells=True, local=False)
        parts.append(St(type(m)(pk, tk), st.kind, 1))
    return parts


def _expected_union(parts):
    pts = []
    for s in parts:
        pts.extend(s.P)
    return set(pts)


def op_add(ctx, rng, A, B, expect_exact=True):
    """A + B for two meshes of one class."""
    op = "add"
    new_mesh = A.mesh + B.mesh
    ctx.reached("op:add")
    new = St(new_mesh, A.kind, A.order)
    info = {"op": op, "cls": A.cls, "cells": [A.nt, B.nt]}
    if A.order == 2:
        mech = M_O2_STRUCT if o2_struct_predicate(A, new_mesh) else None
        check_valid(ctx, op, new, mech=mech, need_measure=False)
        if mech:
            ctx.reached("second-order-structural-op")
        if _skeleton_usable(ctx, new):
            # vertex skeleton: the cells of A followed by the cells of B
            ok = new.nt == A.nt + B.nt and all(
                new.ckey(c) == (A.ckey(c) if c < A.nt else B.ckey(c - A.nt)) for c in range(new.nt))
            ctx.check("cells-are-expected-point-sets", ok, mech=f"{op}:skeleton-cells:{A.kind}2", **info)
            ctx.reached("skeleton-judged-under-second-order-finding")
        return None
    union = _expected_union([A, B])
    merged = len(A.P) + len(B.P) - len(union)
    # predicate of the recorded mechanism: the result carries np.round(p, 8) of the operands' coordinates,
    # and that differs from the operands' coordinates
    pa, pb = np.asarray(A.mesh.p), np.asarray(B.mesh.p)
    rounding_changes = not (np.array_equal(pa.round(8), pa) and np.array_equal(pb.round(8), pb))
    if rounding_changes:
        rounded = {tuple(c) for c in np.hstack((pa.round(8), pb.round(8))).T.tolist()}
        if set(new.P) == rounded and set(new.P) != union:
            ctx.check("coordinates-transformed", False, mech=M_ADD_ROUND, **info,
                      max_shift=float(max(np.abs(pa.round(8) - pa).max(), np.abs(pb.round(8) - pb).max())),
                      vertices_collapsed=int(len(union) - len(rounded)))
            ctx.reached("add-rounding-observed")
            return None
    ctx.check("coordinates-transformed", set(new.P) == union, mech=f"{op}:vertex-set:{A.kind}", **info,
              got=len(set(new.P)), expected=len(union))
    ctx.check("shared-vertex-structure", len(new.P) == len(set(new.P)) == len(union),
              mech=f"{op}:coincident-vertices-merged:{A.kind}", **info, nodes=len(new.P), distinct=len(union))
    valid = check_valid(ctx, op, new, allow_repeated_cells=False)
    ok = new.nt == A.nt + B.nt
    bad = None
    if ok:
        for c in range(new.nt):
            src, cc = (A, c) if c < A.nt else (B, c - A.nt)
            same = (new.ckey(c) == src.ckey(cc)) if A.sorted_cells else (new.ctuple(c) == src.ctuple(cc))
            if not same:
                ok, bad = False, c
                break
    ctx.check("cells-are-expected-point-sets", ok, mech=f"{op}:cells:{A.kind}", first_bad=bad, **info)
    ma, mb, mn = A.measure(), B.measure(), new.measure()
    if None in (ma, mb, mn):
        ctx.drop("measure-undefined(folded-cell)")
    else:
        ctx.check("measure-exact", mn == ma + mb, mech=f"{op}:measure:{A.kind}", got=float(mn), ref=float(ma + mb),
                  **info)
    if ok and (A.mesh.subdomains or A.mesh.boundaries or B.mesh.subdomains or B.mesh.boundaries):
        ctx.reached("tagged-operands:add")
        check_optional_tags(ctx, op, new, _accept_from([A, B], sub_geo, 0), _accept_from([A, B], bnd_geo, 1), **info)
    if merged and merged < min(len(A.P), len(B.P)):
        ctx.nontrivial(op, A.cls, "partially-coincident")
        ctx.reached("join-partially-coincident")
    elif merged == 0:
        ctx.nontrivial(op, A.cls, "disjoint")
    ctx.sample({"op": "add", "cls": A.cls, "cells": [A.nt, B.nt], "merged_vertices": merged})
    return new if valid else None


def nudge(rng, x, nmax=4):
    """x moved by a random number (-nmax..nmax) of units in the last place, entry by entry."""
    x = np.array(x, dtype=float)
    steps = rng.integers(-nmax, nmax + 1, size=x.shape)
    for _ in range(nmax):
        up, dn = steps > 0, steps < 0
        x[up] = np.nextafter(x[up], np.inf)
        x[dn] = np.nextafter(x[dn], -np.inf)
        steps = steps - np.sign(steps)
    return x


def op_add_near(ctx, rng, A0, B0, how, bits=8):
    """A + B where the interface vertices agree only up to a few units in the last place (the purpose of `+`:
    B was produced by another computation than A).  A0, B0: parts on the 2^-bits lattice sharing their interface
    bitwise (split_parts).  Oracle: every interface pair is merged (node count), every coordinate of the result is
    bitwise a coordinate of one operand, and the cells are the operands' cells after snapping to the lattice."""
    op = "add"
    kind = A0.kind
    lat = 2.0 ** bits

    def canon(P):
        return [tuple(np.round(np.array(v) * lat) / lat) for v in P]
    pa, pb = np.asarray(A0.mesh.p).copy(), np.asarray(B0.mesh.p).copy()
    both = np.hstack((pa, pb))
    ext = float(np.ptp(both, axis=1).max())
    if ext <= 0 or ext > 1e6 / lat / 4:
        ctx.drop("near-join-skipped(lattice-finer-than-the-merge-tolerance)")
        return None
    setA = set(A0.P)
    iface_b = np.array([v in setA for v in B0.P])
    setB = set(B0.P)
    iface_a = np.array([v in setB for v in A0.P])
    n_iface = int(iface_b.sum())
    if n_iface == 0:
        ctx.drop("near-join-skipped(no-interface)")
        return None
    # pitfall: the library merges through a rounded key; a coordinate whose key sits next to a rounding boundary
    # may legitimately land on either side for the two operands
    u = pb[:, iface_b] / ext * 1e8
    frac = u - np.floor(u)
    if (np.abs(frac - 0.5) < 1e-3).any():
        ctx.drop("near-join-skipped(interface-coordinate-next-to-a-rounding-boundary-of-the-key)")
        return None
    if how == "ulp-b":
        pb[:, iface_b] = nudge(rng, pb[:, iface_b])
    elif how == "ulp-both":
        pa[:, iface_a] = nudge(rng, pa[:, iface_a], 2)
        pb[:, iface_b] = nudge(rng, pb[:, iface_b], 2)
    elif how == "translate-back":
        third = 1.0 / 3.0
        pb = (pb + third) - third
    else:
        raise ValueError(how)
    A = St(type(A0.mesh)(pa, np.asarray(A0.mesh.t).copy()), kind, 1)
    B = St(type(B0.mesh)(pb, np.asarray(B0.mesh.t).copy()), kind, 1)
    moved = int((np.asarray(B.mesh.p)[:, iface_b] != np.asarray(B0.mesh.p)[:, iface_b]).any(axis=0).sum()) + \
        int((np.asarray(A.mesh.p)[:, iface_a] != np.asarray(A0.mesh.p)[:, iface_a]).any(axis=0).sum())
    if canon(A.P) != A0.P or canon(B.P) != B0.P:
        ctx.drop("near-join-skipped(perturbation-leaves-the-lattice-cell)")
        return None
    new_mesh = A.mesh + B.mesh
    ctx.reached("op:add")
    new = St(new_mesh, kind, 1)
    info = {"op": op, "cls": A.cls, "cells": [A.nt, B.nt], "how": how, "interface": n_iface, "moved": moved}
    want_nodes = len(A.P) + len(B.P) - n_iface
    nodes = len(new.P)
    ctx.check("shared-vertex-structure", nodes <= want_nodes,
              mech=f"{op}:nearly-coincident-vertices-not-merged:{kind}", nodes=nodes, expected=want_nodes, **info)
    ctx.check("shared-vertex-structure", nodes >= want_nodes, mech=f"{op}:distinct-vertices-merged:{kind}",
              nodes=nodes, expected=want_nodes, **info)
    operands = set(A.P) | set(B.P)
    ctx.check("coordinates-transformed", set(new.P) <= operands,
              mech=f"{op}:merged-coordinate-is-neither-operands:{kind}", foreign=lambda: len(set(new.P) - operands),
              **info)
    cn = canon(new.P)
    ctx.check("shared-vertex-structure", len(set(cn)) == len(cn) and set(cn) == set(A0.P) | set(B0.P),
              mech=f"{op}:vertex-set-after-near-merge:{kind}", **info)
    valid = check_valid(ctx, op, new, allow_repeated_cells=False)
    t = new.t
    ok = new.nt == A.nt + B.nt and t.size > 0 and t.min() >= 0 and t.max() < len(cn)
    bad = None
    if ok:
        for c in range(new.nt):
            src, cc = (A0, c) if c < A.nt else (B0, c - A.nt)
            got = [cn[v] for v in t[:, c]]
            same = (frozenset(got) == src.ckey(cc)) if A.sorted_cells else (tuple(got) == src.ctuple(cc))
            if not same:
                ok, bad = False, c
                break
    ctx.check("cells-are-expected-point-sets", ok, mech=f"{op}:cells-after-near-merge:{kind}", first_bad=bad, **info)
    if moved:
        ctx.nontrivial(op, A.cls, "nearly-coincident", how)
        ctx.reached("join-nearly-coincident")
        ctx.reached("join-nearly-coincident:" + how)
    else:
        ctx.drop("near-join-perturbation-was-the-identity")
    ctx.sample({"op": "add", "cls": A.cls, "cells": [A.nt, B.nt], "how": how, "interface": n_iface, "moved": moved})
    return new if valid else None


def op_matmul(ctx, rng, parts, form="list"):
    """parts[0] @ parts[1:] (form 'list'), parts[0] @ parts[1] (form 'mesh'), parts[1:] @ parts[0] (form 'rlist'),
    parts[0] @ parts[1] @ parts[2] ... (form 'chain')."""
    op = "matmul"
    first, rest = parts[0], parts[1:]
    if form == "mesh":
        out = first.mesh @ rest[0].mesh
        rest = rest[:1]
        order = [first] + rest
    elif form == "rlist":
        out = [s.mesh for s in rest] @ first.mesh
        order = rest + [first]
    elif form == "chain":
        # m1 @ m2 @ m3 ...: every step joins the meshes returned by the step before (which share one node array and
        # reference only part of it) with the next mesh
        out = first.mesh
        for s in rest:
            out = out @ s.mesh
        order = [first] + rest
        if len(order) > 2:
            ctx.reached("matmul-chained")
    else:
        out = first.mesh @ [s.mesh for s in rest]
        order = [first] + rest
    ctx.reached("op:matmul")
    ctx.reached(f"matmul-{len(order)}-meshes")
    info = {"op": op, "form": form, "classes": [s.cls for s in order], "cells": [s.nt for s in order]}
    ok = isinstance(out, list) and len(out) == len(order) and all(type(o) is type(s.mesh) for o, s in zip(out, order))
    ctx.check("result-valid", ok, mech="matmul:list-of-same-classes", **info)
    if not ok:
        return None
    if any(s.order == 2 for s in order):
        for o, s in zip(out, order):
            if s.order == 2:
                mech = M_O2_STRUCT if o2_struct_predicate(s, o) else None
                new = St(o, s.kind, 2)
                check_valid(ctx, op, new, mech=mech, need_measure=False)
                if mech:
                    ctx.reached("second-order-structural-op")
                if _skeleton_usable(ctx, new):
                    ok = new.nt == s.nt and all(new.ckey(c) == s.ckey(c) for c in range(s.nt))
                    ctx.check("cells-are-expected-point-sets", ok, mech=f"{op}:skeleton-cells:{s.kind}2", **info)
                    ctx.reached("skeleton-judged-under-second-order-finding")
        return None
    union = _expected_union(order)
    p0 = np.asarray(out[0].p)
    ctx.check("shared-vertex-structure", all(np.array_equal(np.asarray(o.p), p0) for o in out),
              mech="matmul:common-vertex-array", **info)
    P0 = [tuple(c) for c in p0.T.tolist()]
    ctx.check("shared-vertex-structure", len(set(P0)) == len(P0) and set(P0) == union,
              mech="matmul:coincident-vertices-merged", **info, nodes=len(P0), distinct=len(union))
    # stacked operand coordinates in call order (self first): used only by the predicate of the mechanism
    call_order = [first] + rest
    all_cells_ok = True
    stacked = np.hstack([np.asarray(s.mesh.p) for s in call_order])
    n0 = np.asarray(first.mesh.p).shape[1]
    for j, (o, s) in enumerate(zip(out, order)):
        new = St(o, s.kind, 1)
        probs = own_validity(new, allow_unused=True)
        okc = new.nt == s.nt and not any(pr[0] in ("t-out-of-range", "t-shape", "p-shape") for pr in probs)
        bad = None
        if okc:
            for c in range(s.nt):
                same = (new.ckey(c) == s.ckey(c)) if s.sorted_cells else (new.ctuple(c) == s.ctuple(c))
                if not same:
                    okc, bad = False, c
                    break

        def mech(o=o, s=s, new=new):
            # predicate: the mesh is third or later in call order and its cells sit exactly on the stacked
            # vertices addressed with the offset of the FIRST mesh
            jj = call_order.index(s)
            if jj < 2:
                return f"matmul:cells:{s.kind}"
            wrong = stacked[:, np.asarray(s.mesh.t) + n0]      # (dim, nverts, ncells)
            for c in range(s.nt):
                w = [tuple(x) for x in wrong[:, :, c].T.tolist()]
                same = (frozenset(w) == new.ckey(c)) if s.sorted_cells else (tuple(w) == new.ctuple(c))
                if not same:
                    return f"matmul:cells:{s.kind}"
            return M_MATMUL
        ctx.check("cells-are-expected-point-sets", okc, mech=mech, position=j, first_bad=bad, problems=probs, **info)
        all_cells_ok = all_cells_ok and okc
        if okc and (s.mesh.subdomains or s.mesh.boundaries):
            ctx.reached("tagged-operands:matmul")
            check_optional_tags(ctx, op, new, _accept_from([s], sub_geo, 0), _accept_from([s], bnd_geo, 1),
                                position=j, **info)
        if okc:
            mo, mn = s.measure(), new.measure()
            if mo is not None and mn is not None:
                ctx.check("measure-exact", mo == mn, mech=f"matmul:measure:{s.kind}", position=j, **info)
    merged = sum(len(s.P) for s in order) - len(union)
    if merged:
        ctx.nontrivial(op, "+".join(info["classes"]), form, "partially-coincident")
        ctx.reached("join-partially-coincident")
    ctx.sample({"op": "matmul", "form": form, "classes": info["classes"], "cells": info["cells"],
                "merged_vertices": merged})
    # the returned meshes share one node array: each of them carries the other meshes' vertices as unused nodes
    return [St(o, s.kind, 1) for o, s in zip(out, order)] if all_cells_ok else None


# ------------------------------------------------------------------------ splits
def _boundary_pieces_ok(old, new):
    """Every boundary facet of the simplicial result lies in a boundary facet of the input and their number is
    the expected multiple: children of neighbouring cells meet along whole facets (no crossed diagonals)."""
    ob = [frozenset(old.P[v] for v in k) for k in old.topo.boundary_facet_keys()]
    nb = [frozenset(new.P[v] for v in k) for k in new.topo.boundary_facet_keys()]
    if old.kind == "quad":
        return set(ob) == set(nb) and len(nb) == len(ob)
    want = sum(2 if len(k) == 4 else 1 for k in ob)
    if len(nb) != want:
        return False
    obs = set(ob)
    by_vertex = {}
    for k in ob:
        for v in k:
            by_vertex.setdefault(v, []).append(k)
    for k in nb:
        v0 = next(iter(k))
        if not any(k <= q for q in by_vertex.get(v0, [])):
            return False
    return True


def op_to_meshtri(ctx, rng, old, style=None, conform_expected=True):
    op = "to_meshtri" + ("-x" if style == "x" else "")
    m = old.mesh
    osub, obnd = tag_arrays(m)
    nt = old.nt
    xin = None
    if rng.random() < 0.5:
        xin = rng.integers(-50, 50, size=nt).astype(float)
        new_mesh, Xout = m.to_meshtri(x=xin, style=style)
    else:
        new_mesh, Xout = m.to_meshtri(style=style), None
    ctx.reached("op:" + op)
    import skfem
    info = {"op": op, "cls": old.cls, "ncells": nt, "tags": tag_kinds(osub, obnd)}
    ctx.check("result-valid", type(new_mesh) is skfem.MeshTri1, mech=f"{op}:class", **info)
    new = St(new_mesh, "tri", 1)
    nchild = 4 if style == "x" else 2
    nold = np.asarray(m.p).shape[1]
    # predicate of the recorded mechanism: more nodes than max(t)+1 (second-order class / unused nodes) and the
    # centroid vertices are numbered from max(t)+1
    x_mech = None
    if style == "x" and nold > int(old.t.max()) + 1 and new.nt == 4 * nt and \
            int(np.asarray(new_mesh.t).max()) == int(old.t.max()) + nt:
        x_mech = M_TRI_X
        ctx.reached("to-meshtri-x-on-mesh-with-extra-nodes")
    # a second-order input hands its non-vertex nodes over as unused vertices: Mesh.is_valid() then says False;
    # counted, not judged (the geometry of the result does not depend on them)
    valid = check_valid(ctx, op, new, mech=x_mech, allow_unused=(old.order == 2), lib=(old.order == 1), like=old)
    if old.order == 2:
        ctx.reached("observed:split-of-second-order-mesh-keeps-extra-nodes-as-unused-vertices")
    # coordinates: old vertices keep number and place, centroids appended
    pn = np.asarray(new_mesh.p)
    okp = pn.shape[1] == nold + (nt if style == "x" else 0) and np.array_equal(pn[:, :nold], np.asarray(m.p))
    if okp and style == "x":
        cen = np.array([[float(x) for x in old.centroid(c)] for c in range(nt)]).T
        scale = max(1.0, float(np.abs(cen).max()))
        okp = bool(np.abs(pn[:, nold:] - cen).max() <= 4e-16 * scale)
    ctx.check("coordinates-transformed", okp, mech=f"{op}:vertices-kept-centroids-appended", **info)
    if not okp:
        return None
    # parent of each child, found geometrically
    parent_of = {}
    cent = {}
    for c in range(nt):
        vs = old.ckey(c)
        if style == "x":
            cent[c] = new.P[nold + c]
        parent_of[c] = vs
    by_vertex = {}
    for c in range(nt):
        for v in parent_of[c]:
            by_vertex.setdefault(v, []).append(c)
    parents = []
    ok = new.nt == nchild * nt
    bad = None
    for i in range(new.nt):
        k = new.ckey(i)
        cands = set()
        for v in k:
            for c in by_vertex.get(v, []):
                if k <= (parent_of[c] | ({cent[c]} if style == "x" else set())):
                    cands.add(c)
        if len(cands) != 1:
            ok, bad = False, i
            parents.append(None)
        else:
            parents.append(cands.pop())
    ctx.check("cells-are-expected-point-sets", ok, mech=x_mech or f"{op}:child-inside-one-parent", first_bad=bad, **info)
    if ok:
        convex = [quad_strictly_convex(old.ctuple(c)) for c in range(nt)]
        sums = {}
        cnt = {}
        for i, c in enumerate(parents):
            sums[c] = sums.get(c, F(0)) + abs(simplex_signed(new.ctuple(i))) / 2
            cnt[c] = cnt.get(c, 0) + 1
        okc = all(cnt.get(c, 0) == nchild for c in range(nt))
        okm = True
        for c in range(nt):
            if not convex[c]:
                ctx.drop("non-convex-quadrilateral")
                continue
            if sums.get(c) != abs(quad_signed(old.ctuple(c))) / 2:
                okm = False
                bad = c
        ctx.check("split-children-tile-parent", okc and okm, mech=x_mech or f"{op}:children-tile-parent", first_bad=bad,
                  **info)
        if all(convex) and valid:
            mo, mn = old.measure(), new.measure()
            if mo is not None and mn is not None:
                ctx.check("measure-exact", mo == mn, mech=f"{op}:measure", got=float(mn), ref=float(mo), **info)
        conf = new.topo.max_cells_per_facet() <= 2 and _boundary_pieces_ok(old, new)
        ctx.check("split-conforming", conf, mech=f"{op}:nonconforming", **info)
        if Xout is not None:
            Xo = np.asarray(Xout)
            ctx.check("index-map-new-to-old", Xo.shape == (new.nt,) and
                      all(Xo[i] == xin[parents[i]] for i in range(new.nt)),
                      mech=f"{op}:cellwise-data-follows-children", **info)
        # tags
        exp_sub = {}
        for name, arr in osub.items():
            sel = set(np.asarray(arr).ravel().tolist())
            exp_sub[name] = {new.ckey(i) for i in range(new.nt) if parents[i] in sel}
        exp_bnd = {name: bnd_geo(old, arr) for name, arr in obnd.items()}
        # an oriented tag (should the split ever keep the flags): the flagged side is the child of the owner cell
        # that contains the facet
        exp_ori = {}
        if any(is_oriented(a) for a in obnd.values()):
            kids = {}
            for i, c in enumerate(parents):
                kids.setdefault(old.ckey(c), []).append(new.ckey(i))
            for name, pairs in exp_orientation(old, obnd).items():
                exp_ori[name] = {(fk, ck) for fk, owner in pairs for ck in kids.get(owner, []) if fk <= ck}
        check_tags(ctx, op, new, exp_sub, exp_bnd, exp_ori=exp_ori, ori_mode="equal", **info)
        # predicate of the recorded mechanism: an EMPTY tag of the input comes back as a float64 array (the next
        # restrict/trace then raises IndexError when it indexes with it)
        nsub, nbnd = tag_arrays(new_mesh)
        floats = [n_ for n_, v in nbnd.items() if n_ in obnd and np.asarray(obnd[n_]).size == 0
                  and np.asarray(v).size == 0 and not np.issubdtype(np.asarray(v).dtype, np.integer)]
        others = [n_ for n_, v in list(nbnd.items()) + list(nsub.items())
                  if not np.issubdtype(np.asarray(v).dtype, np.integer) and n_ not in floats]
        ctx.check("removed-tags-vanish", not floats, mech=M_TRI_EMPTY, names=floats, **info)
        ctx.check("removed-tags-vanish", not others, mech=f"{op}:tag-array-not-integer", names=others, **info)
        if floats:
            ctx.reached("to-meshtri-with-empty-boundary-tag")
            new = St(attach_tags(new_mesh, nsub, {n_: (np.asarray(v).astype(np.int32) if n_ in floats else v)
                                                  for n_, v in nbnd.items()}), "tri", 1)
        if osub or obnd:
            ctx.nontrivial(op, old.cls, tag_kinds(osub, obnd))
        elif nt > 1:
            ctx.nontrivial(op, old.cls, "none")
        ctx.sample({"op": op, "cls": old.cls, "ncells": nt, "children": new.nt, "tags": tag_kinds(osub, obnd),
                    "x": xin is not None})
    return new if (valid and ok) else None


def op_to_meshtet(ctx, rng, old, conform_expected=False):
    op = "to_meshtet"
    m = old.mesh
    new_mesh = m.to_meshtet()
    ctx.reached("op:to_meshtet:" + old.kind)
    import skfem
    nt = old.nt
    nchild = 6 if old.kind == "hex" else 3
    info = {"op": op, "cls": old.cls, "ncells": nt}
    ctx.check("result-valid", type(new_mesh) is skfem.MeshTet1, mech=f"{op}:class", **info)
    new = St(new_mesh, "tet", 1)
    valid = check_valid(ctx, op, new, allow_unused=(old.order == 2), lib=(old.order == 1), like=old)
    ctx.check("coordinates-transformed", np.array_equal(np.asarray(new_mesh.p), np.asarray(m.p)),
              mech=f"{op}:vertices-kept", **info)
    by_vertex = {}
    keys = [old.ckey(c) for c in range(nt)]
    for c in range(nt):
        for v in keys[c]:
            by_vertex.setdefault(v, []).append(c)
    parents = []
    ok = new.nt == nchild * nt
    bad = None
    for i in range(new.nt):
        k = new.ckey(i)
        cands = {c for v in k for c in by_vertex.get(v, []) if k <= keys[c]}
        if len(cands) != 1:
            ok, bad = False, i
            parents.append(None)
        else:
            parents.append(cands.pop())
    ctx.check("cells-are-expected-point-sets", ok, mech=f"{op}:child-inside-one-parent:{old.kind}", first_bad=bad, **info)
    if not ok:
        return None
    sums, cnt = {}, {}
    for i, c in enumerate(parents):
        sums[c] = sums.get(c, F(0)) + abs(simplex_signed(new.ctuple(i))) / 6
        cnt[c] = cnt.get(c, 0) + 1
    okc = all(cnt.get(c, 0) == nchild for c in range(nt))
    okm, all_planar = True, True
    planar = hex_faces_planar if old.kind == "hex" else wedge_faces_planar
    for c in range(nt):
        # the union of the children is the cell exactly when the quadrilateral faces are planar
        if not planar(old, c):
            all_planar = False
            ctx.drop("non-planar-quadrilateral-face")
            continue
        mu = old.cell_measure(c)
        if mu is None:
            ctx.drop("measure-undefined(folded-cell)")
            continue
        if sums.get(c) != mu:
            okm, bad = False, c
    ctx.check("split-children-tile-parent", okc and okm, mech=f"{op}:children-tile-parent:{old.kind}", first_bad=bad,
              **info)
    if all_planar and valid:
        mo, mn = old.measure(), new.measure()
        if mo is not None and mn is not None:
            ctx.check("measure-exact", mo == mn, mech=f"{op}:measure:{old.kind}", got=float(mn), ref=float(mo), **info)
    osub, obnd = tag_arrays(m)
    if osub or obnd:
        ctx.reached("tagged-operands:to_meshtet")
        exp_sub = {}
        for name, arr in osub.items():
            sel = set(np.asarray(arr).ravel().tolist())
            exp_sub[name] = [{new.ckey(i) for i in range(new.nt) if parents[i] in sel}]
        exp_bnd = {}
        if obnd:
            nfk = [new.fkey(g) for g in range(int(np.asarray(new_mesh.facets).shape[1]))]
            for name, arr in obnd.items():
                tagged = bnd_geo(old, arr)
                by_pt = {}
                for fk in tagged:
                    for v in fk:
                        by_pt.setdefault(v, []).append(fk)
                # the pieces of a tagged facet: result facets all of whose vertices lie on it
                exp_bnd[name] = [{k_ for k_ in nfk if any(k_ <= fk for fk in by_pt.get(next(iter(k_)), []))}]
        check_optional_tags(ctx, op, new, exp_sub, exp_bnd, **info)
    conf = new.topo.max_cells_per_facet() <= 2 and _boundary_pieces_ok(old, new)
    if conform_expected:
        # local vertex orders produced by the library's own constructors: neighbouring cells must cut the
        # shared quadrilateral along the same diagonal
        ctx.check("split-conforming", conf, mech=f"{op}:nonconforming-on-library-ordered-cells:{old.kind}", **info)
    elif not conf:
        # arbitrary admissible local orders: the docstring promises the split of each cell only
        ctx.reached("observed:to_meshtet-crossed-diagonals-on-arbitrary-local-order")
    if nt > 1:
        ctx.nontrivial(op, old.cls, "conforming" if conf else "crossed-diagonals")
    ctx.sample({"op": op, "cls": old.cls, "ncells": nt, "children": new.nt, "conforming": bool(conf)})
    return new if valid else None


# --------------------------------------------------------------------- extrusion
def line_cells(line):
    """Cells of a line mesh as (z_low, z_high) pairs."""
    P = np.asarray(line.mesh.p)[0]
    out = set()
    for a, b in line.t.T:
        za, zb = float(P[a]), float(P[b])
        out.add((min(za, zb), max(za, zb)))
    return out


def op_extrude(ctx, rng, base, line, swap=False):
    """base (tri or line) * line."""
    import skfem
    op = "extrude:" + base.kind
    new_mesh = (line.mesh * base.mesh) if (swap and base.kind == "tri") else (base.mesh * line.mesh)
    ctx.reached("op:" + op)
    zs = sorted(set(np.asarray(line.mesh.p)[0].tolist()))
    sorted_pairs = set(zip(zs[:-1], zs[1:]))
    lcells = line_cells(line)
    info = {"op": op, "base": base.cls, "base_cells": base.nt, "line_cells": line.nt}
    want_cls = skfem.MeshWedge1 if base.kind == "tri" else skfem.MeshQuad1
    ctx.check("result-valid", type(new_mesh) is want_cls, mech=f"{op}:class", **info)
    kind = "wedge" if base.kind == "tri" else "quad"
    new = St(new_mesh, kind, 1)
    # expected cells: one per (base cell, line cell)
    if base.kind == "tri":
        def expected(pairs):
            return {frozenset([v + (z,) for v in base.ckey(c) for z in pr]) for c in range(base.nt) for pr in pairs}
    else:
        bc = line_cells(base)
        xs = sorted(set(np.asarray(base.mesh.p)[0].tolist()))
        bsorted = set(zip(xs[:-1], xs[1:]))

        def expected(pairs, bc=bc):
            return {frozenset([(x, z) for x in b for z in pr]) for b in bc for pr in pairs}
    got = [new.ckey(c) for c in range(new.nt)]
    want = expected(lcells)
    mech = None
    if set(got) != want:
        nodes_base = np.asarray(base.mesh.p).shape[1]
        if base.kind == "line" and (lcells != sorted_pairs or bc != bsorted) and \
                set(got) == expected(sorted_pairs, bsorted):
            mech = M_EXTR_GAPS   # predicate: the result is the tensor grid of the two sorted point sets
            ctx.reached("extrusion-over-gapped-line")
        elif base.kind == "tri" and lcells != sorted_pairs and set(got) == expected(sorted_pairs):
            mech = M_EXTR_GAPS   # predicate: the result is the product with the sorted point set of the line
            ctx.reached("extrusion-over-gapped-line")
        elif base.kind == "tri" and nodes_base > int(base.t.max()) + 1:
            mech = M_EXTR_NVERT  # predicate: base carries more nodes than max(t)+1 (second order / unused)
            ctx.reached("extrusion-of-mesh-with-extra-nodes")
    ctx.check("extrusion-is-product", set(got) == want and len(got) == len(want), mech=mech or f"{op}:cells", **info,
              got=len(got), expected=len(want))
    if mech:
        return None
    valid = check_valid(ctx, op, new, allow_unused=(base.order == 2), like=base)
    if kind == "wedge":
        ok = True
        for c in range(new.nt):
            tup = new.ctuple(c)
            for i in range(3):
                lo, hi = tup[i], tup[i + 3]
                if lo[:2] != hi[:2] or not lo[2] < hi[2]:
                    ok = False
        ctx.check("extrusion-is-product", ok, mech=f"{op}:top-above-bottom", **info)
    mb = base.measure() if base.kind == "tri" else sum((F(b) - F(a) for a, b in line_cells(base)), F(0))
    ml = sum((F(b) - F(a) for a, b in lcells), F(0))
    mn = new.measure()
    if mb is not None and mn is not None:
        ctx.check("measure-exact", mn == mb * ml, mech=f"{op}:measure", got=float(mn), ref=float(mb * ml), **info)
    bsub, bbnd = tag_arrays(base.mesh)
    lsub, lbnd = tag_arrays(line.mesh)
    if (bsub or bbnd or lsub or lbnd) and base.order == 1 and set(got) == want:
        # tags of the factors (none are carried today).  A cell tag of a factor designates the product cells over
        # its cells, a facet tag the product of its facets with the cells of the other factor.
        ctx.reached("tagged-operands:extrude")
        LP = np.asarray(line.mesh.p)[0]

        def lcell(j):
            a, b = (float(LP[v]) for v in line.t[:, int(j)])
            return (min(a, b), max(a, b))

        def prod(key, zs):
            return frozenset(v + (z,) for v in key for z in zs)
        allc = [base.ckey(c) for c in range(base.nt)]
        exp_sub, exp_bnd = {}, {}
        for name, arr in bsub.items():
            exp_sub.setdefault(name, []).append({prod(base.ckey(int(c)), pr) for c in np.asarray(arr).ravel()
                                                 for pr in lcells})
        for name, arr in lsub.items():
            exp_sub.setdefault(name, []).append({prod(ck, lcell(j)) for ck in allc for j in np.asarray(arr).ravel()})
        for name, arr in bbnd.items():
            exp_bnd.setdefault(name, []).append({prod(base.fkey(int(f)), pr) for f in np.asarray(arr).ravel()
                                                 for pr in lcells})
        for name, arr in lbnd.items():
            zs = [next(iter(line.fkey(int(f))))[0] for f in np.asarray(arr).ravel()]
            exp_bnd.setdefault(name, []).append({prod(ck, (z,)) for ck in allc for z in zs})
        for e in (exp_sub, exp_bnd):
            for name, sets in e.items():
                if len(sets) > 1:
                    sets.append(set().union(*sets))
        check_optional_tags(ctx, op, new, exp_sub, exp_bnd, **info)
    ctx.nontrivial(op, base.cls, "layers>1" if len(lcells) > 1 else "one-layer")
    ctx.sample({"op": op, "base": base.cls, "base_cells": base.nt, "layers": len(lcells), "cells": new.nt})
    return new if valid else None


# -------------------------------------------------------------------- transforms
PYTH = [(3, 4), (5, 12), (-4, 3), (8, 15), (12, -5)]


def _fdet(A):
    return X.det([list(r) for r in A])


def _apply_affine(old, A, b):
    """Exact images (Fractions) of all nodes under x -> A x + b."""
    out = []
    d = old.dim
    for v in old.P:
        fv = X.frv(v)
        out.append([sum(A[i][j] * fv[j] for j in range(d)) + b[i] for i in range(d)])
    return out


def _draw_transform(rng, old, which):
    """Returns (callable on the mesh, A, b, descriptor); A is None for the nonlinear morph (then `b` is the
    float function computing the expected coordinates)."""
    d = old.dim
    I = [[F(int(i == j)) for j in range(d)] for i in range(d)]
    zero = [F(0)] * d
    if which == "translated":
        big = rng.random() < 0.2
        diffs = [float(rng.integers(-64, 65)) / 16 + (1000.0 * int(rng.integers(-1, 2)) if big else 0.0)
                 for _ in range(d)]
        arg = {0: tuple(diffs), 1: list(diffs), 2: np.array(diffs)}[int(rng.integers(3))]
        return (lambda m: m.translated(arg)), I, [F(x) for x in diffs], {"diffs": diffs}
    if which == "scaled":
        vals = [2.0, 0.5, -1.0, 3.0, 1.5, -0.25, 4.0, 1.0, 2.0 ** -10, 2.0 ** 10]
        if rng.random() < 0.25:
            f = float(rng.choice(vals))
            fac = [f] * d
            arg = f if rng.random() < 0.5 else np.float64(f)
        else:
            fac = [float(rng.choice(vals)) for _ in range(d)]
            arg = {0: tuple(fac), 1: list(fac), 2: np.array(fac)}[int(rng.integers(3))]
        A = [[F(fac[i]) if i == j else F(0) for j in range(d)] for i in range(d)]
        return (lambda m: m.scaled(arg)), A, zero, {"factors": fac}
    if which == "mirrored":
        n = [0] * d
        if d >= 2 and rng.random() < 0.4:
            i, j = rng.choice(d, size=2, replace=False)
            a, b_ = PYTH[int(rng.integers(len(PYTH)))]
            n[i], n[j] = a, b_
        else:
            n[int(rng.integers(d))] = int(rng.choice([1, -1, 2]))
        pt = None if rng.random() < 0.4 else tuple(float(rng.integers(-16, 17)) / 8 for _ in range(d))
        nn = sum(F(x) * x for x in n)
        A = [[I[i][j] - 2 * F(n[i]) * n[j] / nn for j in range(d)] for i in range(d)]
        p0 = [F(x) for x in (pt or (0.0,) * d)]
        # x - 2 n (n.(x-p0))/nn = A x + 2 n (n.p0)/nn
        b = [2 * F(n[i]) * sum(F(n[j]) * p0[j] for j in range(d)) / nn for i in range(d)]
        normal = tuple(float(x) for x in n) if rng.random() < 0.5 else tuple(int(x) for x in n)
        call = (lambda m: m.mirrored(normal)) if pt is None else (lambda m: m.mirrored(normal, pt))
        return call, A, b, {"normal": list(n), "point": pt}
    if which == "morphed-affine":
        coef = [-1.0, -0.5, 0.5, 1.0, 2.0]
        diag = [1.0, 1.0, 2.0, -1.0, 0.5]
        upper = bool(rng.random() < 0.5)
        A = [[F(0)] * d for _ in range(d)]
        for i in range(d):
            A[i][i] = F(float(rng.choice(diag)))
            for j in range(d):
                if (j > i if upper else j < i) and rng.random() < 0.6:
                    A[i][j] = F(float(rng.choice(coef)))
        b = [F(float(rng.integers(-8, 9)) / 4) for _ in range(d)]
        funcs = []
        nargs = d
        for i in range(d):
            ident = A[i] == I[i] and b[i] == 0
            if ident and rng.random() < 0.7:
                funcs.append(None)
            else:
                row = [float(x) for x in A[i]]
                funcs.append(lambda p, row=row, bi=float(b[i]): sum(row[j] * p[j] for j in range(len(row))) + bi)
        while nargs > 1 and funcs[nargs - 1] is None and rng.random() < 0.5:
            nargs -= 1   # trailing coordinates may simply be omitted
        fs = funcs[:nargs]
        return (lambda m: m.morphed(*fs)), A, b, {"A": [[float(x) for x in r] for r in A], "b": [float(x) for x in b],
                                                   "nargs": nargs}
    if which == "morphed-nonlinear":
        j = int(rng.integers(d))
        i = int((j + 1 + rng.integers(d - 1)) % d) if d > 1 else 0    # i != j: a shear, injective
        amp = float(rng.choice([0.125, 0.25, -0.125]))

        def f(p, i=i, j=j, amp=amp):
            return p[i] + amp * p[j] ** 2
        funcs = [None] * d
        funcs[i] = f

        def expected(p, i=i, j=j, amp=amp):
            q = np.array(p, dtype=float)
            q[i] = p[i] + amp * p[j] ** 2
            return q
        return (lambda m: m.morphed(*funcs)), None, expected, {"i": i, "j": j, "amp": amp}
    raise ValueError(which)


TRANSFORMS = ("translated", "scaled", "mirrored", "morphed-affine", "morphed-nonlinear")


def op_transform(ctx, rng, old, which=None):
    which = which or str(rng.choice(TRANSFORMS))
    op = which
    m = old.mesh
    osub, obnd = tag_arrays(m)
    call, A, b, desc = _draw_transform(rng, old, which)
    new_mesh = call(m)
    ctx.reached("op:" + which.split("-")[0])
    info = {"op": op, "cls": old.cls, "ncells": old.nt, "arg": desc}
    ctx.check("result-valid", type(new_mesh) is type(m), mech=f"{op}:class-changed", **info)
    new = St(new_mesh, old.kind, old.order)
    pold, pn = np.asarray(m.p), np.asarray(new_mesh.p)
    scale = max(1e-300, float(np.abs(pold).max()))
    exact = False
    factor = None
    if A is not None:
        img = _apply_affine(old, A, b)
        pexp = np.array([[float(x) for x in v] for v in img]).T
        factor = abs(_fdet(A))
        okp = pn.shape == pexp.shape and bool(np.abs(pn - pexp).max() <= 1e-13 * max(scale, float(np.abs(pexp).max())))
        if okp:
            exact = all(X.frv(new.P[k]) == img[k] for k in range(len(img)))
    else:
        pexp = b(pold)
        if np.unique(pexp, axis=1).shape[1] != np.unique(pold, axis=1).shape[1]:
            ctx.drop("nonlinear-morph-not-injective-on-the-nodes")
            return None
        if pold.shape[0] == 1:
            # 1-D: x + a x^2 is no shear; it must be monotone on the range of the mesh or cells overlap afterwards
            dimg = np.diff(pexp[0, np.argsort(pold[0])])
            if not (np.all(dimg > 0) or np.all(dimg < 0)):
                ctx.drop("nonlinear-morph-not-monotone-on-the-1d-mesh")
                return None
        okp = pn.shape == pexp.shape and bool(np.abs(pn - pexp).max() <= 1e-13 * max(scale, float(np.abs(pexp).max())))
    ctx.check("coordinates-transformed", okp, mech=f"{op}:coordinates:{old.kind}{old.order}", **info)
    ctx.check("shared-vertex-structure", np.array_equal(np.asarray(new_mesh.t), np.asarray(m.t)),
              mech=f"{op}:connectivity-changed", **info)
    if not okp:
        return None
    # cell-wise non-degeneracy is demanded when the image is exact in floating point; after an inexact map a cell
    # whose corner Jacobian is ~0 (e.g. produced by an earlier smoothing) may flip by rounding: dropped, the
    # coordinates (checked above) and the total measure (checked below, relative) are the oracle there
    valid = check_valid(ctx, op, new, need_measure=(A is not None and old.order == 1 and factor != 0 and exact),
                        like=old)
    if valid and A is not None and old.order == 1 and not exact and \
            own_validity(new, need_measure=True, allow_unused=has_unused(old)):
        ctx.drop("inexact-transform-of-a-nearly-degenerate-cell")
        return None
    if A is not None and valid:
        _same_measure(ctx, op, old, new, info, factor=factor, exact=exact)
        if exact:
            ctx.reached("transform-exact-in-floating-point")
    # tags: the same index arrays must designate the images of the same entities
    newP = new.P
    t = old.t
    exp_sub = {k: {frozenset(newP[v] for v in t[:, int(c)]) for c in np.asarray(a).ravel()} for k, a in osub.items()}
    fc = np.asarray(m.facets) if obnd else None
    exp_bnd = {k: {frozenset(newP[v] for v in fc[:, int(f)]) for f in np.asarray(a).ravel()} for k, a in obnd.items()}
    check_tags(ctx, op, new, exp_sub, exp_bnd, exp_ori=exp_orientation(old, obnd, P=newP), ori_mode="equal", **info)
    check_orientation_identical(ctx, op, obnd, tag_arrays(new_mesh)[1], old.kind, **info)
    if (factor is not None and factor != 1) or osub or obnd:
        ctx.nontrivial(op, old.cls, tag_kinds(osub, obnd))
    ctx.sample({"op": op, "cls": old.cls, "arg": desc, "exact": exact,
                "det": None if factor is None else float(factor)})
    if A is None and valid and old.order == 1 and own_validity(new, need_measure=True, allow_unused=has_unused(old)):
        ctx.drop("nonlinear-morph-folded-a-cell")
        return None
    return new if valid else None


def op_oriented(ctx, rng, old):
    op = "oriented"
    m = old.mesh
    osub, obnd = tag_arrays(m)
    signs_own = []
    for c in range(old.nt):
        s = simplex_signed(old.ctuple(c))
        signs_own.append(1 if s > 0 else (-1 if s < 0 else 0))
    info = {"op": op, "cls": old.cls, "ncells": old.nt, "negative": int(sum(1 for s in signs_own if s < 0))}
    ori = np.asarray(m.orientation())
    # (pitfall: on a curved second-order cell the sign of the Jacobian at the reference origin is not the sign of
    # the vertex skeleton; the exact sign oracle is used for first-order cells only)
    if old.order == 1:
        ctx.check("orientation-positive", ori.shape == (old.nt,) and ori.tolist() == signs_own,
                  mech=f"orientation:sign:{old.kind}{old.order}", **info)
    new_mesh = m.oriented()
    ctx.reached("op:oriented")
    new = St(new_mesh, old.kind, old.order)
    ctx.check("coordinates-transformed", np.array_equal(np.asarray(new_mesh.p), np.asarray(m.p)),
              mech=f"{op}:coordinates-changed", **info)
    ok = new.nt == old.nt and all(new.ckey(c) == old.ckey(c) for c in range(old.nt))
    ctx.check("cells-are-expected-point-sets", ok, mech=f"{op}:cells:{old.kind}", **info)
    if old.order == 1:
        pos = ok and all(simplex_signed(new.ctuple(c)) > 0 for c in range(new.nt))
    else:   # relational: the library's own sign must be positive afterwards, and only flagged cells were touched
        pos = ok and bool((np.asarray(new_mesh.orientation()) == 1).all()) and \
            all(new.ctuple(c) == old.ctuple(c) for c in range(old.nt) if ori[c] == 1)
    ctx.check("orientation-positive", pos, mech=f"{op}:negative-cell-left:{old.kind}{old.order}", **info)
    valid = check_valid(ctx, op, new, need_measure=(old.order == 1), like=old)
    if ok:
        _same_measure(ctx, op, old, new, info)
        def stale_flags(name, arr):
            # predicate of the suspected defect: cells were flipped (their local facet numbering and with it the
            # row order of f2t changed for some tagged facet) while the tag came back as the same two arrays
            a = obnd[name]
            idx = np.asarray(a).ravel()
            same = np.array_equal(idx, np.asarray(arr).ravel()) and np.array_equal(np.asarray(a.ori), np.asarray(arr.ori))
            moved = not np.array_equal(np.asarray(m.f2t)[:, idx], np.asarray(new_mesh.f2t)[:, idx])
            return M_ORI_STALE if (same and moved and info["negative"] > 0) else None
        check_tags(ctx, op, new, {k: sub_geo(old, v) for k, v in osub.items()},
                   {k: bnd_geo(old, v) for k, v in obnd.items()}, exp_ori=exp_orientation(old, obnd),
                   ori_mode="equal", ori_mech=stale_flags, **info)
    if info["negative"] and info["negative"] < old.nt:
        ctx.nontrivial(op, old.cls, tag_kinds(osub, obnd))
        ctx.reached("oriented-flips-some-cells")
    return new if valid else None


def _nearly_flat(st, floor=1e-6):
    """min over cells and reference corners of |det DF| / diam^d below `floor` (float arithmetic, own geometry)."""
    from .refmodel import geometry as GEO
    P, T = np.asarray(st.mesh.p, dtype=float), np.asarray(st.mesh.t)[:st.nv]
    J = GEO.jacobian(st.kind, P, T, GEO.ref_vertices(st.kind))
    dets = np.abs(GEO.det(J))                                  # (nt, ncorners)
    ext = P[:, T]
    diam = (ext.max(axis=1) - ext.min(axis=1)).max(axis=0)
    return bool((dets.min(axis=1) / np.maximum(diam, 1e-300) ** st.dim).min() < floor)


def op_smoothed(ctx, rng, old):
    op = "smoothed"
    m = old.mesh
    osub, obnd = tag_arrays(m)
    pold = np.asarray(m.p)
    n = pold.shape[1]
    topo = old.topo
    bverts = topo.boundary_vertices()
    mode = "default" if rng.random() < 0.6 else "given"
    if mode == "default":
        fixed = sorted(bverts)
        new_mesh = m.smoothed()
    else:
        k = int(rng.integers(0, n))
        extra = rng.choice(n, size=k, replace=False)
        fixed = sorted(set(extra.tolist()) | (bverts if rng.random() < 0.7 else set()))
        arg = np.array(fixed, dtype=np.int64)
        new_mesh = m.smoothed(arg if rng.random() < 0.7 else list(fixed))
    ctx.reached("op:smoothed")
    info = {"op": op, "cls": old.cls, "ncells": old.nt, "mode": mode, "fixed": len(fixed), "nodes": n}
    new = St(new_mesh, old.kind, old.order)
    pn = np.asarray(new_mesh.p)
    if old.order == 2:
        # predicate of the recorded mechanism: non-vertex nodes have no neighbours in the vertex graph,
        # the average divides by zero
        nvert = len(topo.vertices())
        nanmech = M_O2_SMOOTH if (pn.shape == pold.shape and np.isnan(pn[:, nvert:]).any()
                                  and np.isfinite(pn[:, :nvert]).all()) else None
        ctx.check("smoothing-averages-neighbours", np.isfinite(pn).all(), mech=nanmech or f"{op}:non-finite:{old.kind}2",
                  **info)
        if nanmech:
            ctx.reached("second-order-smoothed")
        return None
    # neighbours through mesh edges (own dictionary: edges in 3-D, facets in 2-D)
    pairs = topo.edge_cells.keys() if old.dim == 3 else topo.facet_cells.keys()
    nb = {}
    for a, b_ in pairs:
        nb.setdefault(a, []).append(b_)
        nb.setdefault(b_, []).append(a)
    pexp = pold.copy()
    fx = set(fixed)
    for v in range(n):
        if v not in fx and v in nb:
            pexp[:, v] = pold[:, nb[v]].sum(axis=1) / len(nb[v])
    scale = max(1e-300, float(np.abs(pold).max()))
    ctx.check("smoothing-averages-neighbours", pn.shape == pexp.shape and
              bool(np.abs(pn - pexp).max() <= 1e-13 * scale), mech=f"{op}:neighbour-average:{old.kind}", **info)
    ctx.check("coordinates-transformed", pn.shape == pold.shape and
              np.array_equal(pn[:, fixed], pold[:, fixed]), mech=f"{op}:fixed-node-moved:{old.kind}", **info)
    ctx.check("shared-vertex-structure", np.array_equal(np.asarray(new_mesh.t), np.asarray(m.t)),
              mech=f"{op}:connectivity-changed", **info)
    # signed measure is a function of the boundary only: with all boundary vertices fixed it is invariant
    # (pitfall: Laplacian smoothing may fold a mesh over itself while every cell keeps a non-zero measure; the
    # invariance needs cells on opposite sides of each shared facet, decided combinatorially)
    if bverts <= fx and old.kind in ("tri", "tet", "quad") and pn.shape == pold.shape and consistently_oriented(old):
        signed = simplex_signed if old.kind != "quad" else quad_signed
        tot_old = tot_new = F(0)
        for c in range(old.nt):
            so = signed(old.ctuple(c))
            sg = 1 if so > 0 else -1
            tot_old += abs(so)
            tot_new += sg * signed(new.ctuple(c))
        ctx.check("measure-exact", tot_old == tot_new, mech=f"{op}:signed-measure:{old.kind}", **info,
                  got=float(tot_new), ref=float(tot_old))
        ctx.reached("smoothed-signed-measure-invariant")
    newP = new.P
    t = old.t
    exp_sub = {k: {frozenset(newP[v] for v in t[:, int(c)]) for c in np.asarray(a).ravel()} for k, a in osub.items()}
    fc = np.asarray(m.facets) if obnd else None
    exp_bnd = {k: {frozenset(newP[v] for v in fc[:, int(f)]) for f in np.asarray(a).ravel()} for k, a in obnd.items()}
    dup = len(set(newP)) != len(newP)
    if not dup:
        check_tags(ctx, op, new, exp_sub, exp_bnd, exp_ori=exp_orientation(old, obnd, P=newP), ori_mode="equal",
                   **info)
        check_orientation_identical(ctx, op, obnd, tag_arrays(new_mesh)[1], old.kind, **info)
    else:
        ctx.drop("smoothing-made-vertices-coincide")
    moved = int((np.abs(pn - pold).max(axis=0) > 0).sum()) if pn.shape == pold.shape else 0
    if moved:
        ctx.nontrivial(op, old.cls, mode, tag_kinds(osub, obnd))
    probs = own_validity(new, need_measure=True)
    if probs or (old.kind in ("tri", "tet", "quad") and not consistently_oriented(new)):
        ctx.drop("smoothing-folded-or-flattened-a-cell")   # Laplacian smoothing does not promise validity
        return None
    if old.kind != "line" and _nearly_flat(new):
        # valid by a hair only: the next rounding (a translation) would decide the sign of a corner determinant
        ctx.drop("smoothing-left-a-nearly-flat-cell")
        return None
    return new


# ------------------------------------------------------------------------- trace
def op_trace(ctx, rng, old):
    import skfem
    op = "trace"
    m = old.mesh
    _, obnd = tag_arrays(m)
    nf = int(np.asarray(m.facets).shape[1])
    bfac = sorted(k for k in old.topo.boundary_facet_keys())
    look = {old.fverts(f): f for f in range(nf)}
    forms = ["none", "array", "unsorted-array", "list"]
    if obnd:
        forms.append("name")
    form = str(rng.choice(forms))
    if form == "none":
        arg, exp, ordered = None, sorted(look[frozenset(k)] for k in bfac), False
    elif form == "array":
        exp = np.sort(rng.choice(nf, size=int(rng.integers(1, nf + 1)), replace=False)).astype(np.int32)
        arg, ordered = exp, True
    elif form == "unsorted-array":
        exp = rng.choice(nf, size=int(rng.integers(1, nf + 1)), replace=False).astype(np.int64)
        arg, ordered = exp, True
    elif form == "list":
        a = rng.choice(nf, size=int(rng.integers(1, nf + 1)), replace=False).astype(np.int32)
        i = int(rng.integers(nf))
        arg, exp, ordered = [a, i], sorted(set(a.tolist()) | {i}), False
    else:
        nm = str(rng.choice(sorted(obnd)))
        arg, exp, ordered = nm, np.asarray(obnd[nm]), True
    exp = np.asarray(exp).astype(np.int64)
    mtypes = {"tri": skfem.MeshLine1, "quad": skfem.MeshLine1, "tet": skfem.MeshTri1, "hex": skfem.MeshQuad1}
    mtype = mtypes[old.kind] if rng.random() < 0.6 else None
    project = None
    if rng.random() < 0.3:
        keep = sorted(rng.choice(old.dim, size=old.dim - 1, replace=False).tolist())
        project = (lambda p, keep=keep: p[keep])
    kw = {}
    if mtype is not None:
        kw["mtype"] = mtype
    if project is not None:
        kw["project"] = project
    res = m.trace(arg, **kw)
    ctx.reached("op:trace")
    info = {"op": op, "cls": old.cls, "form": form, "mtype": getattr(mtype, "__name__", None),
            "project": project is not None, "nfacets": int(exp.size)}
    ok = isinstance(res, tuple) and len(res) == 2
    ctx.check("result-valid", ok, mech="trace:returns-mesh-and-facets", **info)
    if not ok:
        return None
    tm, fac = res
    fac = np.asarray(fac)
    good = fac.shape == exp.shape and (np.array_equal(fac, exp) if ordered else sorted(fac.tolist()) == exp.tolist())
    ctx.check("index-map-new-to-old", good, mech=f"trace:returned-facets:{old.kind}", **info)
    ctx.check("result-valid", type(tm) is (mtype or skfem.Mesh), mech="trace:class", **info, got=type(tm).__name__)
    if not good:
        return None
    tp, tt = np.asarray(tm.p), np.asarray(tm.t)
    fcols = np.asarray(m.facets)
    pold = np.asarray(m.p)
    okc = tt.shape == (fcols.shape[0], fac.size) and tt.min() >= 0 and tt.max() < tp.shape[1]
    bad = None
    if okc:
        for i, f in enumerate(fac):
            want = pold[:, fcols[:, f]]
            if project is not None:
                want = project(want)
            got = tp[:, tt[:, i]]
            if mtype is not None and getattr(tm, "sort_t", False):
                same = sorted(map(tuple, want.T.tolist())) == sorted(map(tuple, got.T.tolist()))
            else:
                same = np.array_equal(want, got)
            if not same:
                okc, bad = False, int(i)
                break
    ctx.check("trace-cells-are-facets", okc, mech=f"trace:cells:{old.kind}", first_bad=bad, **info)
    used = np.unique(fcols[:, fac])
    wantp = pold[:, used] if project is None else project(pold[:, used])
    ctx.check("trace-cells-are-facets", tp.shape == wantp.shape and np.array_equal(tp, wantp),
              mech=f"trace:vertices-are-the-used-ones-in-order:{old.kind}", **info)
    # tags on the trace mesh (none today): a subdomain named like a boundary of the input designates the traced
    # facets of that boundary; anything else must at least be a well-formed index array
    tsub = dict(getattr(tm, "subdomains", None) or {})
    tbnd = dict(getattr(tm, "boundaries", None) or {})
    if obnd and not tsub and not tbnd:
        ctx.reached("observed:tags-not-carried:trace")
    for name, arr in tsub.items():
        prob = index_problems(arr, fac.size)
        if name in obnd:
            sel = set(np.asarray(obnd[name]).ravel().tolist())
            want = {i for i, f in enumerate(fac.tolist()) if f in sel}
            ctx.check("boundaries-carried", prob is None and set(np.asarray(arr).ravel().tolist()) == want,
                      mech=f"trace:sub-tag-carried-with-wrong-entities:{old.kind}", name=name, index_problem=prob, **info)
            ctx.reached("carried-tag-judged:trace")
        else:
            ctx.check("removed-tags-vanish", prob is None, mech=f"trace:sub-tag-of-unknown-origin-malformed:{old.kind}",
                      name=name, index_problem=prob, **info)
    if tbnd and mtype is not None:
        try:
            ntf = int(np.asarray(tm.facets).shape[1])
        except Exception:
            ntf = None
        for name, arr in tbnd.items():
            prob = index_problems(arr, ntf) if ntf is not None else None
            ctx.check("removed-tags-vanish", prob is None, mech=f"trace:bnd-tag-malformed:{old.kind}", name=name,
                      index_problem=prob, **info)
    ctx.nontrivial(op, old.cls, form, info["mtype"])
    ctx.sample(info)
    return None


# ----------------------------------------------------------------------- tagging
def op_with_tags(ctx, rng, old):
    """with_subdomains / with_boundaries with index arrays and predicates, merged into existing tags."""
    op = "with_tags"
    m = old.mesh
    osub, obnd = tag_arrays(m)
    nf = int(np.asarray(m.facets).shape[1])
    topo = old.topo
    look = {old.fverts(f): f for f in range(nf)}
    bset = {look[frozenset(k)] for k in topo.boundary_facet_keys()}
    # --- subdomains
    new_s, exp_s = {}, {}
    fn, sel, hs = halfspace(rng, old)
    if fn is not None:
        new_s["pS"] = fn
        exp_s["pS"] = set(sel.tolist())
    arr = rng.choice(old.nt, size=int(rng.integers(1, old.nt + 1)), replace=False).astype(np.int32)
    nm = "sA" if (rng.random() < 0.5) else "sNew"     # 'sA' overrides an existing tag of that name
    new_s[nm] = arr
    exp_s[nm] = set(arr.tolist())
    m2 = m.with_subdomains(new_s)
    ctx.reached("op:with_subdomains")
    info = {"op": op, "cls": old.cls, "ncells": old.nt, "halfspace": hs}
    s2 = tag_arrays(m2)[0]
    ok = set(s2) == set(osub) | set(new_s)
    for k, want in exp_s.items():
        ok = ok and k in s2 and set(np.asarray(s2[k]).tolist()) == want and index_problems(s2[k], old.nt) is None
    for k in osub:
        if k not in new_s:
            ok = ok and k in s2 and np.array_equal(np.asarray(s2[k]), np.asarray(osub[k]))
    ctx.check("tags-assigned", ok, mech=f"with_subdomains:{old.kind}", **info)
    ctx.check("tags-assigned", np.array_equal(np.asarray(m2.p), np.asarray(m.p)) and
              np.array_equal(np.asarray(m2.t), np.asarray(m.t)) and
              (tag_arrays(m2)[1].keys() == obnd.keys()), mech="with_subdomains:mesh-or-boundaries-changed", **info)
    # --- boundaries: predicate on facet midpoints (vertex mean), boundary facets only by default
    d = old.dim
    fcols = np.asarray(m2.facets)
    new_b, exp_b = {}, {}
    a = rng.integers(-3, 4, size=d)
    if a.any():
        vals = {}
        for f in range(nf):
            vs = [X.frv(old.P[v]) for v in sorted(old.fverts(f))]
            # the library averages the rows of `facets`; a padded prism triangle repeats one vertex
            rows = [X.frv(old.P[int(v)]) for v in fcols[:, f]]
            vals[f] = sum(F(int(ai)) * (sum(r[i] for r in rows) / len(rows)) for i, ai in enumerate(a))
        lo, hi = min(vals.values()), max(vals.values())
        if lo < hi:
            c = F(float(lo + (hi - lo) * F(int(rng.integers(1, 32)), 32)))
            if not any(abs(v - c) * 2 ** 30 < (hi - lo) for v in vals.values()):
                af, cf = a.astype(float), float(c)
                pred = (lambda x, af=af, cf=cf: sum(af[i] * x[i] for i in range(len(af))) <= cf)
                only = bool(rng.random() < 0.6)
                sel_f = {f for f, v in vals.items() if v <= c and (f in bset or not only)}
                new_b["pB"] = (pred, only)
                exp_b["pB"] = sel_f
    arrb = rng.choice(nf, size=int(rng.integers(1, nf + 1)), replace=False).astype(np.int64)
    nmb = "bA" if rng.random() < 0.5 else "bNew"
    m3 = m2
    for k, (pred, only) in new_b.items():
        m3 = m3.with_boundaries({k: pred}) if only else m3.with_boundaries({k: pred}, boundaries_only=False)
    m3 = m3.with_boundaries({nmb: arrb})
    exp_b[nmb] = set(arrb.tolist())
    ctx.reached("op:with_boundaries")
    b3 = tag_arrays(m3)[1]
    ok = set(b3) == set(obnd) | set(exp_b)
    for k, want in exp_b.items():
        ok = ok and k in b3 and set(np.asarray(b3[k]).tolist()) == want and \
            (index_problems(b3[k], nf) is None)
    for k in obnd:
        if k not in exp_b:
            ok = ok and k in b3 and np.array_equal(np.asarray(b3[k]), np.asarray(obnd[k]))
    ctx.check("tags-assigned", ok, mech=f"with_boundaries:{old.kind}", **info,
              got={k: len(np.asarray(v)) for k, v in b3.items()}, expected={k: len(v) for k, v in exp_b.items()})
    check_orientation_identical(ctx, "with_boundaries", {k: v for k, v in obnd.items() if k not in exp_b}, b3, old.kind,
                                **info)
    ctx.check("tags-assigned", tag_arrays(m3)[0].keys() == s2.keys() and np.array_equal(np.asarray(m3.t), np.asarray(m.t)),
              mech="with_boundaries:mesh-or-subdomains-changed", **info)
    ctx.nontrivial(op, old.cls, "predicate" if (new_b or fn is not None) else "arrays")
    new = St(m3, old.kind, old.order)
    new._P, new._topo = old._P, old._topo
    return new


def op_with_defaults(ctx, rng, old):
    """with_defaults(): left/right/bottom/top/front/back = facets whose midpoint sits on the bounding box side."""
    m = old.mesh
    try:
        m2 = m.with_defaults()
    except AttributeError:
        ctx.drop("with_defaults-needs-params()")   # MeshLine1 has no params(): outside the statement
        return old
    ctx.reached("op:with_defaults")
    b2 = tag_arrays(m2)[1]
    names = [("left", "right"), ("bottom", "top"), ("front", "back")]
    pold = np.asarray(m.p)
    fcols = np.asarray(m.facets)
    nf = fcols.shape[1]
    ok = True
    detail = None
    for d in range(old.dim):
        for name, ext in zip(names[d], (pold[d].min(), pold[d].max())):
            on_side = {f for f in range(nf) if all(old.P[int(v)][d] == ext for v in fcols[:, f])}
            got = set(np.asarray(b2.get(name, [])).tolist())
            # facets entirely on the side must be tagged; tagged facets must at least touch the side's slab
            if not on_side <= got:
                ok, detail = False, (name, "missing", len(on_side - got))
            for f in got - on_side:
                mid = np.mean([old.P[int(v)][d] for v in fcols[:, f]])
                if abs(mid - ext) > 0.011 * max(np.ptp(pold[d]), 1e-300) + 1e-8 + 1e-5 * abs(ext):
                    ok, detail = False, (name, "far-from-side", int(f))
    ctx.check("tags-assigned", ok, mech=f"with_defaults:{old.kind}", cls=old.cls, detail=detail)
    return old
