from __future__ import annotations

import argparse
import importlib
import os
import sys


def main(argv=None):
    ap = argparse.ArgumentParser(prog="check")
    ap.add_argument("pid")
    ap.add_argument("--tier", default=os.environ.get("VERIF_TIER", "quick"), choices=["quick", "thorough"])
    ap.add_argument("--seed", type=int, default=int(os.environ.get("VERIF_SEED", "0")))
    ap.add_argument("--replay")
    ap.add_argument("--shard")
    ap.add_argument("--out")
    ap.add_argument("--family")
    ap.add_argument("--nproc", type=int)
    a = ap.parse_args(argv)
    import logging
    import warnings
    warnings.simplefilter("ignore")
    logging.getLogger("skfem").setLevel(logging.ERROR)  # monitors that judge warnings attach their own handler
    from . import engine
    try:
        mod = importlib.import_module("rv.monitors." + a.pid.lower())
    except ModuleNotFoundError as e:
        print(f"FRAMEWORK-ERROR no monitor module for {a.pid}: {e}")
        return 3
    if a.replay:
        return engine.main_replay(mod, a.replay)
    if a.shard:
        i, n = a.shard.split("/")
        return engine.main_shard(mod, a.tier, a.seed, int(i), int(n), a.out)
    if a.family:
        import time
        t0 = time.time()
        _, p = engine.run_single_process(mod, a.tier, a.seed, 0, 1, only=a.family)
        return engine.finish(mod, a.tier, a.seed, engine.merge([engine._prep(p)]), time.time() - t0,
                             replay_mode=True)
    return engine.main_check(mod, a.tier, a.seed, a.nproc)


if __name__ == "__main__":
    sys.exit(main())
