"""sys.monitoring based reach tracker for the anchored functions of a property.

Targets are given as "module:Qual.name" and resolved by qualified name (not line
number).  PY_START counts calls; LINE events are disabled after the first hit,
so the cost is once per line.  Nested code objects (closures such as the element
finders' inner functions) are included.
"""
from __future__ import annotations

import importlib
import sys
import types

TOOL = 4


def _resolve(spec):
    mod, _, qual = spec.partition(":")
    obj = importlib.import_module(mod)
    for part in qual.split("."):
        obj = obj.__dict__[part] if isinstance(obj, type) and part in obj.__dict__ else getattr(obj, part)
    if isinstance(obj, (staticmethod, classmethod)):
        obj = obj.__func__
    if isinstance(obj, property):
        obj = obj.fget
    obj = getattr(obj, "__wrapped__", obj)
    return obj.__code__


def _codes(code):
    yield code
    for c in code.co_consts:
        if isinstance(c, types.CodeType):
            yield from _codes(c)


class Tracker:
    def __init__(self, specs):
        self.specs = list(specs)
        self.by_code = {}
        self.data = {}
        self.active = False

    def start(self):
        missing = []
        if not self.specs or not hasattr(sys, "monitoring"):
            return missing
        mon = sys.monitoring
        try:
            mon.use_tool_id(TOOL, "rv-reach")
        except ValueError:
            return missing
        self.active = True
        E = mon.events
        for spec in self.specs:
            try:
                code = _resolve(spec)
            except Exception:
                missing.append(spec)
                continue
            total = set()
            for c in _codes(code):
                total.update(l for _, _, l in c.co_lines() if l is not None and l != c.co_firstlineno)
                self.by_code[c] = spec
                mon.set_local_events(TOOL, c, E.PY_START | E.LINE)
            self.data[spec] = {"calls": 0, "lines": set(), "lines_total": len(total), "top": code}
        mon.register_callback(TOOL, E.PY_START, self._start)
        mon.register_callback(TOOL, E.LINE, self._line)
        return missing

    def _start(self, code, offset):
        spec = self.by_code.get(code)
        if spec is not None and self.data[spec]["top"] is code:
            self.data[spec]["calls"] += 1

    def _line(self, code, line):
        spec = self.by_code.get(code)
        if spec is not None:
            self.data[spec]["lines"].add(line)
        return sys.monitoring.DISABLE

    def stop(self):
        if not self.active:
            return
        mon = sys.monitoring
        for c in self.by_code:
            mon.set_local_events(TOOL, c, 0)
        mon.register_callback(TOOL, mon.events.PY_START, None)
        mon.register_callback(TOOL, mon.events.LINE, None)
        mon.free_tool_id(TOOL)
        self.active = False

    def export(self):
        return {s: {"calls": d["calls"], "lines": set(d["lines"]), "lines_total": d["lines_total"]}
                for s, d in self.data.items()}
