"""Nodal Lagrange bases built by Vandermonde inversion on a given set of reference nodes.

Used as the harness' own second-order geometry (P2 / Q2 maps) and, with Fractions, as the
exact local-matrix reference of C02.  Independent of the library's hand-written lbasis.
"""
from __future__ import annotations

from fractions import Fraction
from itertools import product

import numpy as np


def exponents(space, k, d):
    if space == "P":
        return [e for e in product(range(k + 1), repeat=d) if sum(e) <= k]
    if space == "Q":
        return list(product(range(k + 1), repeat=d))
    raise ValueError(space)


class NodalBasis:
    """phi_i(X) = sum_j C[j, i] X^e_j with phi_i(node_l) = delta_il (float version)."""

    def __init__(self, nodes, space, k):
        nodes = np.asarray(nodes, dtype=float)  # (N, d)
        self.d = nodes.shape[1]
        self.exps = exponents(space, k, self.d)
        if len(self.exps) != nodes.shape[0]:
            raise ValueError("node count does not match the polynomial space")
        V = np.array([[np.prod(n ** np.array(e)) for e in self.exps] for n in nodes])
        self.C = np.linalg.inv(V)  # (nmono, N)

    def _mono(self, X, deriv=None):
        X = np.asarray(X, dtype=float)
        out = []
        for e in self.exps:
            c = 1.0
            ee = list(e)
            if deriv is not None:
                c = ee[deriv]
                if c == 0:
                    out.append(np.zeros(X.shape[1:]))
                    continue
                ee[deriv] -= 1
            m = c * np.ones(X.shape[1:])
            for i, n in enumerate(ee):
                if n:
                    m = m * X[i] ** n
            out.append(m)
        return np.stack(out)  # (nmono, ...)

    def value(self, X):
        """(N, ...)"""
        return np.einsum("ji,j...->i...", self.C, self._mono(X))

    def grad(self, X):
        """(N, d, ...)"""
        return np.stack([np.einsum("ji,j...->i...", self.C, self._mono(X, m)) for m in range(self.d)], axis=1)


def second_order_basis(kind, elem):
    """Own nodal basis on the library's reference node locations of the geometry element."""
    space, k = {"tri": ("P", 2), "tet": ("P", 2), "quad": ("Q", 2), "hex": ("Q", 2), "line": ("P", 2)}[kind]
    return NodalBasis(np.asarray(elem.doflocs, dtype=float), space, k)


class IsoGeometry:
    """x = sum_i phi_i(X) doflocs[:, element_dofs[i, c]] with the harness' own phi_i."""

    def __init__(self, mesh, kind):
        self.mesh = mesh
        self.kind = kind
        self.nb = second_order_basis(kind, mesh.elem())
        self.ed = np.asarray(mesh.dofs.element_dofs)
        self.P = np.asarray(mesh.doflocs)

    def F(self, X, cells):
        N = self.nb.value(X)
        V = self.P[:, self.ed[:, cells]]  # (dim, Nn, nc)
        if N.ndim == 2:
            return np.einsum("dic,iq->dcq", V, N)
        return np.einsum("dic,icq->dcq", V, N)

    def DF(self, X, cells):
        dN = self.nb.grad(X)  # (Nn, dref, ...)
        V = self.P[:, self.ed[:, cells]]
        if dN.ndim == 3:
            return np.einsum("dic,ikq->dkcq", V, dN)
        return np.einsum("dic,ikcq->dkcq", V, dN)


# --------------------------------------------------------------- exact version
def exact_nodal_coeffs(nodes, space, k):
    """Fraction coefficient matrix C (nmono x N) with phi_i = sum_j C[j][i] X^e_j, nodes as Fractions."""
    d = len(nodes[0])
    exps = exponents(space, k, d)
    n = len(exps)
    if n != len(nodes):
        raise ValueError("node count does not match the polynomial space")
    V = [[_prod(nd, e) for e in exps] for nd in nodes]
    # Gauss-Jordan inverse in Fractions
    A = [row[:] + [Fraction(int(i == j)) for j in range(n)] for i, row in enumerate(V)]
    for c in range(n):
        piv = next(r for r in range(c, n) if A[r][c] != 0)
        A[c], A[piv] = A[piv], A[c]
        pv = A[c][c]
        A[c] = [x / pv for x in A[c]]
        for r in range(n):
            if r != c and A[r][c] != 0:
                f = A[r][c]
                A[r] = [x - f * y for x, y in zip(A[r], A[c])]
    Cinv = [row[n:] for row in A]  # V^{-1}: (nmono x N)
    polys = []
    for i in range(n):
        polys.append({exps[j]: Cinv[j][i] for j in range(n) if Cinv[j][i] != 0})
    return polys


def _prod(nd, e):
    r = Fraction(1)
    for x, n in zip(nd, e):
        if n:
            r *= Fraction(x) ** n
    return r
