"""Independent oracle for ONE refinement step  parent -> child  of a simplicial mesh (d = 1, 2, 3).

Nothing here looks at how the child was produced: the parent of every child cell is found
geometrically, and every clause of C13 is then decided from (parent p, t) and (child p, t) alone.

Arithmetic.  Floats are dyadic rationals.  Let 2^-b be the coarsest power-of-two grid that carries every PARENT
coordinate.  When the parent coordinates, counted in units of that grid, stay below 2^52 in magnitude (scale and
offset do not matter: 2^-30-sized cells and cells of size 2^-6 at 2^24 qualify alike), every sum a + b of two
parent coordinates is an exact double, hence so is every bisection midpoint .5 * (a + b) a correct library
computes; all coordinates of parent and child are then scaled to Python integers (object arrays) on their
common grid and every sign / equality below is decided exactly ("exact mode").  The child needs no condition:
whatever doubles it holds are dyadic rationals, and if they are not the exact midpoints the exact predicates say
so.  Otherwise ("tolerance mode", counted by the caller) the same formulas run in float64 with a length
tolerance  1e-12 * h_cell + 16 ulp(max |coordinate|).

All determinants are "d! * signed measure"; the barycentric *numerators* of a point x w.r.t. a cell K
are  N_m(x) = sign(det K) * det(K with vertex m replaced by x)  (>= 0 inside, = 0 on the facet
opposite to vertex m, sum_m N_m = |det K|).
"""
from __future__ import annotations

import itertools

import numpy as np

MANT_BITS = 52          # parent coordinates < 2^52 grid units: sums of two are exact doubles
MAX_EXTRA_BITS = 900    # child grid finer than the parent's by more than this: ldexp would overflow, use tolerances


# --------------------------------------------------------------------- arithmetic
def grid_bits(P):
    """Smallest b (possibly negative) such that every entry of P is an integer multiple of 2^-b."""
    x = np.asarray(P, dtype=float)
    x = x[x != 0]
    if not x.size:
        return None
    m, e = np.frexp(x)                                   # x = m * 2^e, .5 <= |m| < 1, m * 2^53 an integer
    M = np.abs(np.ldexp(m, 53)).astype(np.int64)
    low = (M & -M).astype(np.float64)                    # lowest set bit, a power of two: log2 exact
    tz = np.log2(low).astype(np.int64)
    return int((53 - tz - e.astype(np.int64)).max())


def min_bits(Pp, Pc):
    """Number of fractional bits of the common grid of parent and child coordinates if the parent qualifies for
    exact mode (see module docstring), else None."""
    for P in (Pp, Pc):
        if P.size and not np.isfinite(P).all():
            return None
    bp = grid_bits(Pp)
    if bp is None:                       # all parent coordinates zero
        bp = 0
    if float(np.abs(Pp).max(initial=0.0)) * 2.0 ** min(bp, 1000) >= 2.0 ** MANT_BITS or bp > 1000:
        return None
    bc = grid_bits(Pc)
    bits = bp if bc is None else max(bp, bc)
    if bits - bp > MAX_EXTRA_BITS:
        return None
    return bits


def to_int(P, bits):
    S = np.ldexp(np.asarray(P, dtype=float), bits)
    out = np.empty(S.size, dtype=object)
    out[:] = [int(v) for v in S.ravel().tolist()]
    return out.reshape(S.shape)


def det(M):
    """M: d x d nested list of equally shaped arrays (object ints or floats)."""
    d = len(M)
    if d == 1:
        return M[0][0]
    if d == 2:
        return M[0][0] * M[1][1] - M[0][1] * M[1][0]
    if d == 3:
        return (M[0][0] * (M[1][1] * M[2][2] - M[1][2] * M[2][1])
                - M[0][1] * (M[1][0] * M[2][2] - M[1][2] * M[2][0])
                + M[0][2] * (M[1][0] * M[2][1] - M[1][1] * M[2][0]))
    raise ValueError(d)


def svol_pts(V):
    """V: list of d+1 coordinate arrays (each (d, N)) -> d! * signed measure, shape (N,)."""
    d = len(V) - 1
    return det([[V[j + 1][r] - V[0][r] for j in range(d)] for r in range(d)])


def sign(a):
    """-1/0/+1 as int64 for float or object arrays."""
    a = np.asarray(a)
    return (a > 0).astype(np.int64) - (a < 0).astype(np.int64)


def edge_hmax(P, t):
    h = np.zeros(t.shape[1])
    for i, j in itertools.combinations(range(t.shape[0]), 2):
        h = np.maximum(h, np.sqrt(((P[:, t[i]] - P[:, t[j]]) ** 2).sum(axis=0)))
    return h


class Problem(Exception):
    """The step cannot be analysed further (the reason has been recorded as a failed clause)."""


class StepOracle:
    """Facts about one step.  `results` maps clause name -> (ok, detail)."""

    def __init__(self, Pp, tp, Pc, tc):
        self.Pp = np.asarray(Pp, dtype=float)       # (d, nvp) parent vertex coordinates
        self.tp = np.asarray(tp).astype(np.int64)   # (d+1, ntp)
        self.Pc = np.asarray(Pc, dtype=float)
        self.tc = np.asarray(tc).astype(np.int64)
        self.d = self.Pp.shape[0]
        self.ntp = self.tp.shape[1]
        self.ntc = self.tc.shape[1]
        bits = min_bits(self.Pp, self.Pc)
        self.exact = bits is not None
        self.bits = bits
        if self.exact:
            self.Xp = to_int(self.Pp, bits)
            self.Xc = to_int(self.Pc, bits)
            self.zero = 0
        else:
            self.Xp, self.Xc = self.Pp, self.Pc
        self.hp = edge_hmax(self.Pp, self.tp)
        cmax = max(float(np.abs(self.Pp).max()), float(np.abs(self.Pc).max()) if self.Pc.size else 0.0)
        # tolerance mode: admissible distance of a point from where it should be
        self.len_tol = np.zeros(self.ntp) if self.exact else 1e-12 * self.hp + 16 * np.finfo(float).eps * cmax
        self.detp = svol_pts([self.Xp[:, self.tp[j]] for j in range(self.d + 1)])   # (ntp,)
        self.sp = sign(self.detp)
        self.absdetp = self.detp * self.sp

    # -------------------------------------------------------------- basic facts
    def vol_tol(self, K):
        """Tolerance for a determinant built from a displacement of len_tol in parent cell(s) K."""
        if self.exact:
            return 0
        return self.len_tol[K] * self.hp[K] ** (self.d - 1) * 4.0

    def child_dets(self):
        return svol_pts([self.Xc[:, self.tc[j]] for j in range(self.d + 1)])

    def degenerate_children(self):
        """Indices of child cells with zero (tolerance mode: below 1e-12 h^d) measure."""
        dc = self.child_dets()
        self.detc = dc
        if self.exact:
            return np.nonzero(sign(dc) == 0)[0]
        hc = edge_hmax(self.Pc, self.tc)
        return np.nonzero(np.abs(dc) <= 1e-12 * hc ** self.d)[0]

    def duplicate_vertices(self):
        """Pairs of child vertices with identical coordinates (exact comparison of the doubles)."""
        seen = {}
        dup = []
        for i, col in enumerate(map(tuple, self.Pc.T.tolist())):
            if col in seen:
                dup.append((seen[col], i))
            else:
                seen[col] = i
        return dup

    # -------------------------------------------------------------- parent map
    def _candidates(self):
        """Float pre-selection: for every child cell the parent cells whose closure contains the
        child's centroid up to 1e-7 (barycentric).  Pairs are pre-selected with a k-d tree (a child
        inside K has its centroid within h_K of K's centroid).  Purely a filter; the decision is
        made by `locate` in exact / tolerance arithmetic on all child vertices."""
        from scipy.spatial import cKDTree
        d = self.d
        V0 = self.Pp[:, self.tp[0]]                                         # (d, ntp)
        A = np.stack([self.Pp[:, self.tp[j + 1]] - V0 for j in range(d)], axis=-1)  # (d, ntp, d)
        A = np.moveaxis(A, 1, 0)                                            # (ntp, d, d): columns = edges
        Ainv = np.linalg.inv(A)
        cen = self.Pc[:, self.tc].mean(axis=1)                              # (d, ntc)
        cenp = self.Pp[:, self.tp].mean(axis=1)
        tree = cKDTree(cen.T)
        lists = tree.query_ball_point(cenp.T, r=self.hp * (1 + 1e-6) + 1e-300)
        cands = [[] for _ in range(self.ntc)]
        K = np.repeat(np.arange(self.ntp), [len(li) for li in lists])
        C = np.fromiter(itertools.chain.from_iterable(lists), dtype=np.int64, count=K.size)
        step = 2_000_000
        for s in range(0, K.size, step):
            k, c = K[s:s + step], C[s:s + step]
            rel = cen[:, c] - V0[:, k]                                      # (d, m)
            lam = np.einsum("mij,jm->mi", Ainv[k], rel)                     # (m, d)
            lmin = np.minimum(lam.min(axis=1), 1.0 - lam.sum(axis=1))
            for kk, cc in zip(k[lmin >= -1e-7].tolist(), c[lmin >= -1e-7].tolist()):
                cands[cc].append(kk)
        return cands

    def bary_numerators(self, K, Y):
        """K: (N,) parent cells; Y: (d, N) points (same arithmetic as Xp) -> (d+1, N) numerators."""
        d = self.d
        V = [self.Xp[:, self.tp[j, K]] for j in range(d + 1)]
        s = self.sp[K]
        out = []
        for m in range(d + 1):
            W = list(V)
            W[m] = Y
            out.append(svol_pts(W) * s)
        return out

    def locate(self):
        """parent[c] = the parent cell that contains all vertices of child c, or -1.
        Also stores num[c, j, m] = numerator of child vertex j w.r.t. parent vertex m."""
        d = self.d
        cands = self._candidates()
        parent = -np.ones(self.ntc, dtype=np.int64)
        num = np.zeros((self.ntc, d + 1, d + 1), dtype=object if self.exact else float)
        # test candidates rank by rank (rank 0 = first candidate of every child, ...)
        rank = 0
        todo = np.arange(self.ntc)
        while todo.size:
            have = np.array([c for c in todo.tolist() if len(cands[c]) > rank], dtype=np.int64)
            if not have.size:
                break
            K = np.array([cands[c][rank] for c in have.tolist()], dtype=np.int64)
            inside = np.ones(have.size, dtype=bool)
            nums = []
            tol = self.vol_tol(K)
            for j in range(d + 1):
                N = self.bary_numerators(K, self.Xc[:, self.tc[j, have]])
                nums.append(N)
                for m in range(d + 1):
                    inside &= np.asarray(N[m] >= -tol, dtype=bool)
            hit = np.nonzero(inside)[0]
            for j in range(d + 1):
                for m in range(d + 1):
                    num[have[hit], j, m] = nums[j][m][hit]
            parent[have[hit]] = K[hit]
            todo = have[~inside]
            rank += 1
        self.parent = parent
        self.num = num
        return parent

    # -------------------------------------------------------------- measures
    def measure_defects(self):
        """Parent cells whose children do not add up to the parent's measure."""
        dc = self.detc
        absdc = dc * sign(dc)
        tot = np.zeros(self.ntp, dtype=object if self.exact else float)
        ok = self.parent >= 0
        np.add.at(tot, self.parent[ok], absdc[ok])
        if self.exact:
            bad = np.nonzero(np.asarray(tot != self.absdetp, dtype=bool))[0]
        else:
            nchild = np.bincount(self.parent[ok], minlength=self.ntp)
            bad = np.nonzero(np.abs(tot - self.absdetp) > self.vol_tol(np.arange(self.ntp)) * (nchild + 1))[0]
        self.children_total = tot
        return bad

    # -------------------------------------------------------------- facets
    def child_facets(self):
        """Facet dictionary of the child: keys (sorted vertex tuples) -> list of (cell, local apex)."""
        d = self.d
        fc = {}
        cols = self.tc.T.tolist()
        for c, col in enumerate(cols):
            for i in range(d + 1):
                key = tuple(sorted(col[:i] + col[i + 1:]))
                fc.setdefault(key, []).append((c, i))
        self.fc = fc
        return fc

    def facet_parent_slots(self):
        """pfm[c, i] = local facet m of parent[c] that contains child facet (c, i) (the facet opposite to
        the child's local vertex i), or -1 if that facet crosses the interior of the parent cell."""
        d = self.d
        if self.exact:
            Z = np.asarray(self.num == 0, dtype=bool)
        else:
            K = np.where(self.parent >= 0, self.parent, 0)
            Z = np.abs(self.num.astype(float)) <= self.vol_tol(K)[:, None, None]
        cnt = Z.sum(axis=1)                                   # (ntc, m): child vertices lying on parent facet m
        on = (cnt[:, None, :] - Z) == d                       # (ntc, i, m): all vertices but i on facet m
        pfm = np.where(on.any(axis=2), on.argmax(axis=2), -1)
        pfm[self.parent < 0] = -1
        self.pfm = pfm
        return pfm

    def parent_facet_key(self, c, i):
        m = int(self.pfm[c, i])
        if m < 0:
            return None
        col = self.tp[:, int(self.parent[c])].tolist()
        return tuple(sorted(col[:m] + col[m + 1:]))

    def parent_facet_of(self, c, i):
        """The parent facet (sorted parent-vertex tuple) that contains facet i (opposite to local vertex i)
        of child cell c, or None if the facet crosses the interior of the parent cell."""
        d = self.d
        K = int(self.parent[c])
        js = [j for j in range(d + 1) if j != i]
        tol = self.vol_tol(K)
        for m in range(d + 1):
            if all((self.num[c, j, m] == 0) if self.exact else (abs(self.num[c, j, m]) <= tol) for j in js):
                col = self.tp[:, K].tolist()
                return tuple(sorted(col[:m] + col[m + 1:])), m
        return None, None

    def facet_ratio_num(self, c, i, m):
        """|det| of the barycentric numerators of child facet (c, i) inside parent facet m of its parent:
        equals (relative (d-1)-measure) * |det K|^d."""
        d = self.d
        js = [j for j in range(d + 1) if j != i]
        ms = [q for q in range(d + 1) if q != m]
        M = [[self.num[c, j, q] for q in ms] for j in js]
        v = det(M)
        return -v if v < 0 else v

    def opposite_sides(self, key, a, b):
        """Apexes a, b (child vertex indices) strictly on opposite sides of child facet `key`."""
        F = list(key)
        Va = [self.Xc[:, f] for f in F] + [self.Xc[:, a]]
        Vb = [self.Xc[:, f] for f in F] + [self.Xc[:, b]]
        da, db = svol_pts(Va), svol_pts(Vb)
        if self.exact:
            return (da > 0 and db < 0) or (da < 0 and db > 0)
        return da * db < 0

    # -------------------------------------------------------------- hanging nodes
    def vertices_inside_edges(self):
        """(vertex, edge) pairs where a child vertex lies in the relative interior of a child cell's edge.
        Candidates come from a k-d tree (a point of the segment is within L/2 of its midpoint); the decision
        is exact (collinear and strictly between) or, in tolerance mode, distance <= 1e-9 L + 1e-13 max|x|."""
        from scipy.spatial import cKDTree
        d = self.d
        pairs = set()
        for i, j in itertools.combinations(range(d + 1), 2):
            a, b = np.minimum(self.tc[i], self.tc[j]), np.maximum(self.tc[i], self.tc[j])
            pairs.update(zip(a.tolist(), b.tolist()))
        E = np.array(sorted(pairs), dtype=np.int64).T                       # (2, ne)
        used = np.unique(self.tc)
        A, B = self.Pc[:, E[0]], self.Pc[:, E[1]]
        L = np.sqrt(((B - A) ** 2).sum(axis=0))
        tree = cKDTree(self.Pc[:, used].T)
        lists = tree.query_ball_point((0.5 * (A + B)).T, r=0.5 * L * (1 + 1e-6))
        ee = np.repeat(np.arange(E.shape[1]), [len(li) for li in lists])
        vv = used[np.fromiter(itertools.chain.from_iterable(lists), dtype=np.int64, count=ee.size)]
        keep = (vv != E[0, ee]) & (vv != E[1, ee])
        ee, vv = ee[keep], vv[keep]
        if not ee.size:
            return []
        a, u = A[:, ee], (B - A)[:, ee]
        w = self.Pc[:, vv] - a
        tpar = (w * u).sum(axis=0) / L[ee] ** 2
        dist2 = ((w - tpar * u) ** 2).sum(axis=0)
        cmax = float(np.abs(self.Pc).max())
        near = (tpar > 1e-9) & (tpar < 1 - 1e-9) & (dist2 <= (1e-9 * L[ee]) ** 2 + (1e-13 * cmax) ** 2)
        out = []
        for e, v in zip(ee[near].tolist(), vv[near].tolist()):
            ia, ib = int(E[0, e]), int(E[1, e])
            if self.exact:
                xa, xb, xv = self.Xc[:, ia], self.Xc[:, ib], self.Xc[:, v]
                uu, ww = xb - xa, xv - xa
                col = all(uu[r] * ww[q] - uu[q] * ww[r] == 0 for r in range(d) for q in range(r + 1, d))
                dot = sum(uu[r] * ww[r] for r in range(d))
                if col and 0 < dot < sum(uu[r] * uu[r] for r in range(d)):
                    out.append((v, (ia, ib)))
            else:
                out.append((v, (ia, ib)))
        return out


def second_order_nodes(mesh, tol_rel=1e-12):
    """For a quadratic simplicial mesh: max distance (relative to the edge length) between the
    edge node the cell's own DOF table designates and the midpoint of the cell's edge.
    The local edge table is the reference cell's (it defines what row k of element_dofs means)."""
    rd = mesh.elem.refdom
    d = mesh.p.shape[0]
    nv = rd.nnodes
    t = np.asarray(mesh.t)[:nv]
    table = rd.facets if d == 2 else rd.edges
    ed = np.asarray(mesh.dofs.element_dofs)
    P = np.asarray(mesh.doflocs)
    worst = 0.0
    for s, (a, b) in enumerate(table):
        node = P[:, ed[nv + s]]
        mid = 0.5 * (P[:, t[a]] + P[:, t[b]])
        L = np.sqrt(((P[:, t[a]] - P[:, t[b]]) ** 2).sum(axis=0))
        worst = max(worst, float((np.sqrt(((node - mid) ** 2).sum(axis=0)) / L).max()))
    return worst
