"""Dictionary-based mesh topology built with plain Python loops from the cell list.

Independent of skfem.mesh.Mesh.build_entities / build_inverse.  The local facet/edge
tables of a reference cell are taken from the library (they *define* what "slot k"
means) but validated geometrically against the reference polytope first
(validate_local_tables), so a corrupted table is detected rather than trusted.
"""
from __future__ import annotations

import itertools

import numpy as np


def validate_local_tables(refdom):
    """Every listed facet is a true face of the reference polytope (its vertices are exactly
    the vertices on one supporting hyperplane), all faces are listed once; every listed edge
    is a true edge (intersection of >= d-1 faces containing both endpoints, 3-D only)."""
    P = np.asarray(refdom.p, dtype=float)
    d, nv = P.shape
    problems = []
    if refdom.facets is None:
        return problems
    faces = set()
    # enumerate supporting hyperplanes through d affinely independent vertices
    for comb in itertools.combinations(range(nv), d):
        Q = P[:, comb]
        if d == 1:
            normal = np.array([1.0])
        else:
            M = (Q[:, 1:] - Q[:, :1]).T  # (d-1, d)
            _, s, vt = np.linalg.svd(M)
            if s.min() < 1e-12:
                continue
            normal = vt[-1]
        off = normal @ Q[:, 0]
        side = normal @ P - off
        if (side > 1e-12).any() and (side < -1e-12).any():
            continue
        faces.add(frozenset(int(i) for i in np.nonzero(np.abs(side) < 1e-12)[0]))
    listed = [frozenset(f) for f in refdom.facets]
    if set(listed) != faces:
        problems.append(("facets", sorted(map(sorted, listed)), sorted(map(sorted, faces))))
    if len(set(listed)) != len(listed):
        problems.append(("duplicate-facet", sorted(map(sorted, listed))))
    if refdom.edges is not None and d == 3:
        true_edges = set()
        for a, b in itertools.combinations(range(nv), 2):
            nshared = sum(1 for f in faces if a in f and b in f)
            if nshared >= 2:
                true_edges.add(frozenset((a, b)))
        le = [frozenset(e) for e in refdom.edges]
        if set(le) != true_edges or len(set(le)) != len(le):
            problems.append(("edges", sorted(map(sorted, le)), sorted(map(sorted, true_edges))))
    return problems


class Topology:
    """Facet and edge dictionaries of a cell list `t` (nverts x ncells, vertex rows only)."""

    def __init__(self, t, local_facets, local_edges=None):
        t = np.asarray(t)
        self.t = t
        self.nt = t.shape[1]
        self.local_facets = [list(f) for f in local_facets]
        self.local_edges = [list(e) for e in local_edges] if local_edges is not None else None
        self.facet_cells = {}   # key -> list of (cell, slot)
        self.cell_facets = []   # cell -> [key per slot]
        for c in range(self.nt):
            col = t[:, c]
            keys = []
            for s, lf in enumerate(self.local_facets):
                key = tuple(sorted({int(col[i]) for i in lf}))
                self.facet_cells.setdefault(key, []).append((c, s))
                keys.append(key)
            self.cell_facets.append(keys)
        self.edge_cells = {}
        self.cell_edges = []
        if self.local_edges is not None:
            for c in range(self.nt):
                col = t[:, c]
                keys = []
                for s, le in enumerate(self.local_edges):
                    key = tuple(sorted({int(col[i]) for i in le}))
                    self.edge_cells.setdefault(key, []).append((c, s))
                    keys.append(key)
                self.cell_edges.append(keys)

    # -------------------------------------------------------------- queries
    def boundary_facet_keys(self):
        return {k for k, v in self.facet_cells.items() if len({c for c, _ in v}) == 1}

    def interior_facet_keys(self):
        return {k for k, v in self.facet_cells.items() if len({c for c, _ in v}) >= 2}

    def boundary_vertices(self):
        return {v for k in self.boundary_facet_keys() for v in k}

    def vertices(self):
        return {int(v) for v in np.unique(self.t)}

    def boundary_edge_keys(self, facet_local_edges_of):
        """Edges of boundary facets: all vertex pairs of a boundary facet that are edges."""
        out = set()
        for k in self.boundary_facet_keys():
            for a, b in itertools.combinations(k, 2):
                if (a, b) in self.edge_cells:
                    out.add((a, b))
        return out

    def max_cells_per_facet(self):
        return max(len({c for c, _ in v}) for v in self.facet_cells.values())

    def components(self):
        """Number of facet-connected components."""
        parent = list(range(self.nt))

        def find(a):
            while parent[a] != a:
                parent[a] = parent[parent[a]]
                a = parent[a]
            return a
        for v in self.facet_cells.values():
            cs = [c for c, _ in v]
            for c in cs[1:]:
                parent[find(c)] = find(cs[0])
        return len({find(c) for c in range(self.nt)})

    def shared_entities(self, c1, c2):
        """(shared vertices, shared edge keys, shared facet keys) of two cells."""
        v = set(int(x) for x in self.t[:, c1]) & set(int(x) for x in self.t[:, c2])
        f = set(self.cell_facets[c1]) & set(self.cell_facets[c2])
        e = set(self.cell_edges[c1]) & set(self.cell_edges[c2]) if self.cell_edges else set()
        return v, e, f


def from_mesh(mesh):
    rd = mesh.elem.refdom
    nv = rd.nnodes
    return Topology(np.asarray(mesh.t)[:nv], rd.facets, rd.edges)
