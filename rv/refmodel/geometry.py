"""The harness' own cell geometry (first-order cells): vertex shape functions, maps,
Jacobians.  Independent of skfem.mapping; vertex order conventions are those of the
reference cells (rv.exact.QUAD_CORNERS / HEX_CORNERS, unit simplices, prism = triangle x line).
"""
from __future__ import annotations

import numpy as np

from ..exact import HEX_CORNERS, QUAD_CORNERS

REFDIM = {"line": 1, "tri": 2, "quad": 2, "tet": 3, "hex": 3, "wedge": 3}
NVERT = {"line": 2, "tri": 3, "quad": 4, "tet": 4, "hex": 8, "wedge": 6}


def shape(kind, X):
    """Vertex shape functions at reference points X (dref, ...) -> (nvert, ...)."""
    X = np.asarray(X, dtype=float)
    one = np.ones(X.shape[1:])
    if kind == "line":
        return np.stack([1 - X[0], X[0]])
    if kind == "tri":
        return np.stack([1 - X[0] - X[1], X[0], X[1]])
    if kind == "tet":
        return np.stack([1 - X[0] - X[1] - X[2], X[0], X[1], X[2]])
    if kind in ("quad", "hex"):
        corners = QUAD_CORNERS if kind == "quad" else HEX_CORNERS
        out = []
        for c in corners:
            N = one.copy()
            for i, bit in enumerate(c):
                N = N * (X[i] if bit else 1 - X[i])
            out.append(N)
        return np.stack(out)
    if kind == "wedge":
        lam = [1 - X[0] - X[1], X[0], X[1]]
        return np.stack([lam[k % 3] * ((1 - X[2]) if k < 3 else X[2]) for k in range(6)])
    raise ValueError(kind)


def dshape(kind, X):
    """Derivatives (nvert, dref, ...) of the vertex shape functions."""
    X = np.asarray(X, dtype=float)
    d = REFDIM[kind]
    one = np.ones(X.shape[1:])
    zero = np.zeros(X.shape[1:])
    if kind == "line":
        return np.stack([np.stack([-one]), np.stack([one])])
    if kind == "tri":
        return np.stack([np.stack([-one, -one]), np.stack([one, zero]), np.stack([zero, one])])
    if kind == "tet":
        return np.stack([np.stack([-one, -one, -one]), np.stack([one, zero, zero]), np.stack([zero, one, zero]),
                         np.stack([zero, zero, one])])
    if kind in ("quad", "hex"):
        corners = QUAD_CORNERS if kind == "quad" else HEX_CORNERS
        out = []
        for c in corners:
            row = []
            for k in range(d):
                N = one.copy()
                for i, bit in enumerate(c):
                    if i == k:
                        N = N * (1.0 if bit else -1.0)
                    else:
                        N = N * (X[i] if bit else 1 - X[i])
                row.append(N)
            out.append(np.stack(row))
        return np.stack(out)
    if kind == "wedge":
        lam = [1 - X[0] - X[1], X[0], X[1]]
        dlam = [(-one, -one), (one, zero), (zero, one)]
        out = []
        for k in range(6):
            zz = (1 - X[2]) if k < 3 else X[2]
            dz = -one if k < 3 else one
            out.append(np.stack([dlam[k % 3][0] * zz, dlam[k % 3][1] * zz, lam[k % 3] * dz]))
        return np.stack(out)
    raise ValueError(kind)


def _cell_vertices(kind, p, t, tind=None):
    t = np.asarray(t)[:NVERT[kind]]
    if tind is not None:
        t = t[:, tind]
    return np.asarray(p)[:, t]  # (dim, nvert, nt)


def map_points(kind, p, t, X, tind=None):
    """x = F_K(X).  X: (dref, npts) shared, or (dref, nt, npts) per cell.  -> (dim, nt, npts)."""
    V = _cell_vertices(kind, p, t, tind)
    N = shape(kind, X)
    if N.ndim == 2:
        return np.einsum("dvt,vq->dtq", V, N)
    return np.einsum("dvt,vtq->dtq", V, N)


def jacobian(kind, p, t, X, tind=None):
    """DF: (dim, dref, nt, npts)."""
    V = _cell_vertices(kind, p, t, tind)
    dN = dshape(kind, X)
    if dN.ndim == 3:
        return np.einsum("dvt,vkq->dktq", V, dN)
    return np.einsum("dvt,vktq->dktq", V, dN)


def det(J):
    """Determinant over the two leading axes of (d, d, ...)."""
    return np.linalg.det(np.moveaxis(J, (0, 1), (-2, -1)))


def inv(J):
    Ji = np.linalg.inv(np.moveaxis(J, (0, 1), (-2, -1)))
    return np.moveaxis(Ji, (-2, -1), (0, 1))


REF_CENTROID = {"line": [0.5], "tri": [1 / 3, 1 / 3], "quad": [0.5, 0.5], "tet": [0.25] * 3, "hex": [0.5] * 3,
                "wedge": [1 / 3, 1 / 3, 0.5]}


def ref_vertices(kind):
    if kind == "line":
        return np.array([[0.0, 1.0]])
    if kind == "tri":
        return np.array([[0, 1, 0], [0, 0, 1]], dtype=float)
    if kind == "tet":
        return np.array([[0, 1, 0, 0], [0, 0, 1, 0], [0, 0, 0, 1]], dtype=float)
    if kind == "quad":
        return np.array(QUAD_CORNERS, dtype=float).T
    if kind == "hex":
        return np.array(HEX_CORNERS, dtype=float).T
    if kind == "wedge":
        return np.array([[0, 0, 0], [1, 0, 0], [0, 1, 0], [0, 0, 1], [1, 0, 1], [0, 1, 1]], dtype=float).T
    raise ValueError(kind)


def random_ref_points(rng, kind, n):
    """Points strictly inside the reference cell."""
    d = REFDIM[kind]
    if kind in ("line", "quad", "hex"):
        return rng.uniform(0.02, 0.98, size=(d, n))
    if kind in ("tri", "tet"):
        lam = rng.dirichlet(np.ones(d + 1), size=n).T
        return lam[1:] * 0.96 + 0.01
    lam = rng.dirichlet(np.ones(3), size=n).T
    return np.vstack([lam[1:] * 0.96 + 0.01, rng.uniform(0.02, 0.98, size=(1, n))])
