"""pytest plugin: `-p rv.pytest_plugin` with RV_SUITE_PIDS=C04,C08,C11 and RV_SUITE_LOG=<dir>."""
import os


def pytest_configure(config):
    from rv import suite_monitors
    which = set(os.environ.get("RV_SUITE_PIDS", "C04,C08,C11").split(","))
    suite_monitors.install(which)
    suite_monitors.install_more(which)


def pytest_sessionfinish(session, exitstatus):
    from rv import suite_monitors
    suite_monitors.dump()
