"""Run engine: tiers, seeding, sharding, watchdog, verdicts, evidence.

A monitor module (rv/monitors/cXX.py) exposes

    PID      = "C08"
    RULE     = "<how cases are generated and what makes one distinct/non-trivial>"
    FAMILIES = [Family("name", fn, quick=…, thorough=…), …]     fn(ctx, k)
    REQUIRED_MONITORS = [...]   monitors that must have >= 1 evaluation for "held"
    REQUIRED_REACH    = [...]   named reach points that must be non-zero for "held"
    TRACK    = ["skfem.module:Qual.name", …]   anchored functions for reach tracking
    ASSUMPTIONS = [...]

Case k of family f under seed s is a pure function of (s, f, k): a witness replays
from these three values.
"""
from __future__ import annotations

import json
import os
import signal
import subprocess
import sys
import time
import traceback
import zlib
from collections import Counter, defaultdict

import numpy as np

VERIF = os.path.dirname(os.path.dirname(os.path.abspath(__file__)))
REPO = os.environ.get("RV_REPO", "/repo")
LEVEL = "exploration"
MAX_WITNESSES_KEPT = 60
MAX_SAMPLES = 8


class CaseTimeout(BaseException):
    """Raised by the per-case watchdog; a BaseException so that a monitor's `except Exception` cannot swallow it."""


class Skip(Exception):
    """Raised by a case generator to discard a case (counted under `dropped`)."""


def crc(x) -> int:
    return zlib.crc32(repr(x).encode())


def jsonable(o, depth=0):
    if depth > 8:
        return repr(o)[:200]
    if isinstance(o, (str, bool)) or o is None:
        return o
    if isinstance(o, (int, np.integer)):
        return int(o)
    if isinstance(o, (float, np.floating)):
        f = float(o)
        return f if np.isfinite(f) else repr(f)
    if isinstance(o, (complex, np.complexfloating)):
        return repr(complex(o))
    if isinstance(o, np.ndarray):
        if o.size <= 64:
            return jsonable(o.tolist(), depth + 1)
        return {"ndarray": list(o.shape), "dtype": str(o.dtype),
                "head": jsonable(o.ravel()[:16].tolist(), depth + 1)}
    if isinstance(o, dict):
        return {str(k): jsonable(v, depth + 1) for k, v in list(o.items())[:64]}
    if isinstance(o, (list, tuple, set, frozenset)):
        lst = list(o)
        out = [jsonable(v, depth + 1) for v in lst[:64]]
        if len(lst) > 64:
            out.append("…(%d more)" % (len(lst) - 64))
        return out
    return repr(o)[:300]


class Family:
    def __init__(self, name, fn, quick, thorough, budget=None, exhaustive=False):
        self.name = name
        self.fn = fn
        self.n = {"quick": quick, "thorough": thorough}
        # wall-clock cap (seconds) per tier for this family inside one process
        self.budget = budget or {"quick": 45.0, "thorough": 420.0}
        self.exhaustive = exhaustive


class Ctx:
    def __init__(self, pid, tier, seed, shard=0, nshards=1):
        self.pid = pid
        self.tier = tier
        self.seed = int(seed)
        self.shard = shard
        self.nshards = nshards
        self.monitors = defaultdict(lambda: {"evaluations": 0, "violations": 0, "tolerated": 0})
        self.nt = set()
        self.samples = []
        self._samples_per_family = Counter()
        self.reach = Counter()
        self.dropped = Counter()
        self.witnesses = []
        self.mech_counts = Counter()
        self.cases_run = Counter()
        self.capped = {}
        self.timeouts = 0
        self.family = None
        self.k = None
        self.notes = {}
        self.max_err = {}

    # ---------------------------------------------------------------- seeding
    def rng(self, *extra) -> np.random.Generator:
        ent = [self.seed, crc(self.family), int(self.k)] + [crc(e) for e in extra]
        return np.random.default_rng(np.random.SeedSequence(ent))

    @property
    def thorough(self):
        return self.tier == "thorough"

    def scale(self, quick, thorough):
        return thorough if self.tier == "thorough" else quick

    # ------------------------------------------------------------- recording
    def ok(self, monitor, n=1):
        self.monitors[monitor]["evaluations"] += n

    def tolerated(self, monitor, n=1):
        self.monitors[monitor]["tolerated"] += n

    def violation(self, monitor, mech=None, **detail):
        m = self.monitors[monitor]
        m["violations"] += 1
        mech = mech or ("unclassified:" + monitor)
        self.mech_counts[mech] += 1
        # the first witness of every mechanism is always kept (verdict lines are generated from stored witnesses)
        if self.mech_counts[mech] == 1 or (self.mech_counts[mech] <= 3 and len(self.witnesses) < MAX_WITNESSES_KEPT):
            self.witnesses.append({
                "property": self.pid, "monitor": monitor, "mech": mech,
                "family": self.family, "k": self.k, "seed": self.seed, "tier": self.tier,
                "detail": jsonable(detail)})

    def check(self, monitor, cond, mech=None, **detail) -> bool:
        """One oracle evaluation. `detail` values may be callables (evaluated lazily)."""
        self.monitors[monitor]["evaluations"] += 1
        if bool(cond):
            return True
        detail = {k: (v() if callable(v) else v) for k, v in detail.items()}
        if callable(mech):
            mech = mech()
        self.violation(monitor, mech, **detail)
        return False

    def close(self, monitor, got, ref, rtol=1e-10, scale=None, atol=0.0, mech=None, **detail) -> bool:
        """|got-ref| <= rtol*scale + atol, scale defaulting to max|ref| (never the difference)."""
        self.monitors[monitor]["evaluations"] += 1
        try:
            got = np.asarray(got)
            ref = np.asarray(ref)
            if got.shape != ref.shape:
                got, ref = np.broadcast_arrays(got, ref)
            diff = np.abs(got - ref)
            err = float(diff.max()) if diff.size else 0.0
            if scale is None:
                scale = float(np.abs(ref).max()) if ref.size else 0.0
            bad = (not np.isfinite(err)) or err > rtol * scale + atol
        except Exception as e:  # shape mismatch etc.
            err, bad, scale = repr(e), True, scale
        if not bad:
            if isinstance(err, float) and scale:
                r = err / scale if scale > 0 else 0.0
                if r > self.max_err.get(monitor, 0.0):
                    self.max_err[monitor] = r
            return True
        detail = {k: (v() if callable(v) else v) for k, v in detail.items()}
        if callable(mech):
            mech = mech()
        self.violation(monitor, mech, err=err, scale=scale, rtol=rtol,
                       got=jsonable(got), ref=jsonable(ref), **detail)
        return False

    def nontrivial(self, *key):
        self.nt.add(json.dumps(jsonable(key), sort_keys=True))

    def sample(self, obj, per_family=2):
        if self._samples_per_family[self.family] < per_family:
            self._samples_per_family[self.family] += 1
            self.samples.append({"family": self.family, "k": self.k, "case": jsonable(obj)})

    def reached(self, name, n=1):
        self.reach[name] += n

    def drop(self, reason):
        self.dropped[reason] += 1

    # --------------------------------------------------------------- export
    def partial(self):
        return {
            "monitors": {k: dict(v) for k, v in self.monitors.items()},
            "nt": sorted(self.nt), "samples": self.samples, "reach": dict(self.reach),
            "dropped": dict(self.dropped), "witnesses": self.witnesses,
            "mech_counts": dict(self.mech_counts), "cases_run": dict(self.cases_run),
            "capped": self.capped, "timeouts": self.timeouts, "notes": self.notes,
            "max_err": self.max_err,
        }


def _alarm_handler(signum, frame):
    raise CaseTimeout()


def run_case(ctx: Ctx, fam: Family, k: int, case_timeout: float):
    ctx.family, ctx.k = fam.name, k
    ctx.cases_run[fam.name] += 1
    signal.signal(signal.SIGALRM, _alarm_handler)
    signal.setitimer(signal.ITIMER_REAL, case_timeout)
    try:
        fam.fn(ctx, k)
    except Skip as e:
        ctx.drop("skip:" + str(e))
    except CaseTimeout:
        ctx.timeouts += 1
        ctx.drop("case-timeout:" + fam.name)
    except (KeyboardInterrupt, MemoryError):
        raise
    except Exception as e:
        signal.setitimer(signal.ITIMER_REAL, 0)
        tb = traceback.extract_tb(e.__traceback__)
        where = "harness"
        for fr in reversed(tb):
            if "/skfem/" in fr.filename:
                where = os.path.basename(fr.filename) + ":" + fr.name
                break
        ctx.monitors["no-unexpected-exception"]["evaluations"] += 1
        ctx.violation("no-unexpected-exception",
                      mech="exception:%s@%s" % (type(e).__name__, where),
                      error=repr(e)[:500],
                      traceback=[f"{os.path.basename(f.filename)}:{f.lineno}:{f.name}" for f in tb][-12:])
    finally:
        signal.setitimer(signal.ITIMER_REAL, 0)


def run_families(mod, ctx: Ctx, only=None):
    t_start = time.time()
    case_timeout = 120.0 if ctx.tier == "quick" else 600.0
    for fam in mod.FAMILIES:
        if only and fam.name != only:
            continue
        n = fam.n[ctx.tier]
        if callable(n):
            n = n(ctx)
        budget = fam.budget[ctx.tier]
        t0 = time.time()
        done = 0
        for k in range(n):
            if k % ctx.nshards != ctx.shard:
                continue
            if time.time() - t0 > budget:
                ctx.capped[fam.name] = {"done": done, "planned": n}
                break
            run_case(ctx, fam, k, case_timeout)
            done += 1
    ctx.notes["wall_s_shard"] = round(time.time() - t_start, 2)


# ------------------------------------------------------------------ merging
def merge(partials):
    out = {"monitors": defaultdict(lambda: {"evaluations": 0, "violations": 0, "tolerated": 0}),
           "nt": set(), "samples": [], "reach": Counter(), "dropped": Counter(),
           "witnesses": [], "mech_counts": Counter(), "cases_run": Counter(),
           "capped": {}, "timeouts": 0, "track": {}, "max_err": {}, "notes": {}}
    fam_samples = Counter()
    for p in partials:
        for k, v in p["monitors"].items():
            for kk, vv in v.items():
                out["monitors"][k][kk] += vv
        out["nt"].update(p["nt"])
        for s in p["samples"]:
            if fam_samples[s["family"]] < 2:
                fam_samples[s["family"]] += 1
                out["samples"].append(s)
        out["reach"].update(p["reach"])
        out["dropped"].update(p["dropped"])
        out["witnesses"].extend(p["witnesses"])
        out["mech_counts"].update(p["mech_counts"])
        out["cases_run"].update(p["cases_run"])
        for f, c in p["capped"].items():
            o = out["capped"].setdefault(f, {"done": 0, "planned": c["planned"]})
            o["done"] += c["done"]
        out["timeouts"] += p["timeouts"]
        for k, v in p.get("max_err", {}).items():
            out["max_err"][k] = max(out["max_err"].get(k, 0.0), v)
        for q, t in p.get("track", {}).items():
            o = out["track"].setdefault(q, {"calls": 0, "lines": set(), "lines_total": t["lines_total"]})
            o["calls"] += t["calls"]
            o["lines"].update(t["lines"])
        for k, v in p.get("notes", {}).items():
            if isinstance(v, (int, float)) and not isinstance(v, bool) and isinstance(out["notes"].get(k, 0), (int, float)):
                out["notes"][k] = out["notes"].get(k, 0) + v     # numeric notes add up over shards
            else:
                out["notes"].setdefault(k, v)
    # one sample per family first (every family represented), then second samples up to the cap
    first, second, seen = [], [], set()
    for smp in out["samples"]:
        (second if smp["family"] in seen else first).append(smp)
        seen.add(smp["family"])
    out["samples"] = (first + second)[:max(MAX_SAMPLES, len(first))]
    return out


# ----------------------------------------------------------------- verdicts
def load_findings():
    path = os.path.join(VERIF, "known_findings.json")
    if not os.path.exists(path):
        return {"open": [], "fixed": []}
    with open(path) as f:
        return json.load(f)


def finish(mod, tier, seed, merged, wall, replay_mode=False):
    pid = mod.PID
    findings = load_findings()
    open_f = {f["mech"]: f for f in findings.get("open", []) if f["property"] == pid}
    known_seen = Counter()
    new_by_mech = {}
    for w in merged["witnesses"]:
        if w["mech"] in open_f:
            known_seen[w["mech"]] += 1
        else:
            new_by_mech.setdefault(w["mech"], w)
    for mech, c in merged["mech_counts"].items():
        if mech in open_f:
            known_seen[mech] = max(known_seen[mech], c)
    n_new = sum(c for m, c in merged["mech_counts"].items() if m not in open_f)
    for mech, c in merged["mech_counts"].items():
        if mech not in open_f and mech not in new_by_mech:  # counted but no stored witness: still a violation
            new_by_mech[mech] = {"property": pid, "monitor": "?", "mech": mech, "family": "?", "k": -1, "seed": seed,
                                 "tier": tier, "detail": {"note": "witness not stored", "count": c}}

    lines = []
    os.makedirs(os.path.join(VERIF, "replays"), exist_ok=True)
    for i, (mech, w) in enumerate(sorted(new_by_mech.items())):
        if i >= 10:
            break
        safe = "".join(ch if ch.isalnum() or ch in "-_." else "_" for ch in mech)[:80]
        path = os.path.join(VERIF, "replays", f"{pid}-{safe}-{w['seed']}-{w['family']}-{w['k']}.json")
        with open(path, "w") as f:
            json.dump(w, f, indent=1)
        lines.append(f"VIOLATION property={pid} replay={path}")
        print(f"  witness[{mech}] monitor={w['monitor']} family={w['family']} k={w['k']}: "
              + json.dumps(w["detail"])[:600])
    for mech in sorted(open_f):
        if known_seen[mech]:
            lines.append(f"KNOWN-FINDING: property={pid} {open_f[mech]['what']} "
                         f"[mech={mech} witnesses={known_seen[mech]}]")

    inconclusive = []
    if not replay_mode:
        for m in getattr(mod, "REQUIRED_MONITORS", []):
            if merged["monitors"].get(m, {}).get("evaluations", 0) == 0:
                inconclusive.append(f"monitor-never-evaluated:{m}")
        for r in getattr(mod, "REQUIRED_REACH", []):
            if merged["reach"].get(r, 0) == 0:
                inconclusive.append(f"reach-point-never-hit:{r}")
        for q, t in merged["track"].items():
            if t["calls"] == 0 and q in getattr(mod, "TRACK_REQUIRED", getattr(mod, "TRACK", [])):
                inconclusive.append(f"anchored-function-never-called:{q}")
        for mech in open_f:
            if not known_seen[mech]:
                # a listed finding that no longer reproduces is not an alarm, but it is
                # reported so that the list can be brought up to date
                print(f"NOTE listed finding not reproduced in this run: {mech}")
        if merged["timeouts"]:
            inconclusive.append(f"case-timeouts:{merged['timeouts']}")
        evaluations = sum(v["evaluations"] for v in merged["monitors"].values())
        if evaluations == 0 or len(merged["nt"]) < 2:
            inconclusive.append("too-few-nontrivial-cases")

    evaluations = sum(v["evaluations"] for v in merged["monitors"].values())
    coverage = {
        "evaluations": int(evaluations),
        "distinct_nontrivial": len(merged["nt"]),
        "rule": mod.RULE,
        "samples": merged["samples"],
        "exhaustive": bool(getattr(mod, "EXHAUSTIVE", False)),
        "monitors": {k: dict(v) for k, v in sorted(merged["monitors"].items())},
        "max_relative_error_seen": {k: float("%.3g" % v) for k, v in sorted(merged["max_err"].items())},
        "cases_run": dict(merged["cases_run"]),
        "capped_families": merged["capped"],
        "reach_points": dict(sorted(merged["reach"].items())),
        "anchored_code_reach": {q: {"calls": t["calls"], "lines_hit": len(t["lines"]),
                                    "lines_total": t["lines_total"]}
                                for q, t in sorted(merged["track"].items())},
        "dropped": dict(merged["dropped"]),
        "known_findings_seen": dict(known_seen),
        "new_violation_mechanisms": dict(Counter({m: c for m, c in merged["mech_counts"].items()
                                                  if m not in open_f})),
        "inconclusive": inconclusive,
        "nontrivial_keys_sample": sorted(merged["nt"])[:12],
        "notes": merged.get("notes", {}),
    }
    ev = {
        "property_id": pid, "tier": tier, "seed": int(seed), "level": LEVEL,
        "coverage": coverage,
        "assumptions": list(getattr(mod, "ASSUMPTIONS", [])) + [
            "decides only the executions produced by this run (inputs listed under rule/samples)",
            "NumPy/SciPy linear algebra used by the reference models is trusted",
        ],
        "wall_s": round(wall, 2),
        "violations": int(n_new),
    }
    if not replay_mode:
        # evidence/ describes runs against /repo itself; a run pointed at another tree (RV_REPO: seeded changes, reverted
        # fixes in scratch copies) leaves its record beside the replays (git-ignored) and never touches evidence/
        evdir = "evidence" if os.path.realpath(REPO) == "/repo" else os.path.join("replays", "evidence-of-runs-against-other-trees")
        os.makedirs(os.path.join(VERIF, evdir), exist_ok=True)
        path = os.path.join(VERIF, evdir, f"{pid}.json")
        with open(path, "w") as f:
            json.dump(ev, f, indent=1, sort_keys=False)
        _validate_evidence(path, ev, lenient=bool(new_by_mech or inconclusive))

    for ln in lines:
        print(ln)
    mons = ", ".join(f"{k}={v['evaluations']}" for k, v in sorted(merged["monitors"].items()))
    print(f"[{pid}] tier={tier} seed={seed} evaluations={evaluations} "
          f"distinct_nontrivial={len(merged['nt'])} wall={wall:.1f}s monitors: {mons}")
    if new_by_mech:
        return 1
    if inconclusive:
        print(f"INCONCLUSIVE property={pid} reason={';'.join(inconclusive)}")
        return 2
    return 0


def _validate_evidence(path, ev, lenient):
    try:
        import jsonschema
        with open("/root/.vp/EVIDENCE.schema.json") as f:
            schema = json.load(f)
    except Exception as e:  # schema not available outside the sandbox
        print(f"NOTE evidence not validated ({e!r})")
        return
    try:
        jsonschema.validate(ev, schema)
    except jsonschema.ValidationError as e:
        print(f"FRAMEWORK-ERROR evidence file {path} invalid: {e.message}")
        if not lenient:
            sys.exit(3)


# ------------------------------------------------------------------ driving
def run_single_process(mod, tier, seed, shard, nshards, only=None):
    from . import reach as _reach
    ctx = Ctx(mod.PID, tier, seed, shard, nshards)
    tracker = _reach.Tracker(getattr(mod, "TRACK", []))
    missing = tracker.start()
    if hasattr(mod, "setup"):
        mod.setup(ctx)
    run_families(mod, ctx, only)
    tracker.stop()
    if hasattr(mod, "teardown"):
        mod.teardown(ctx)
    p = ctx.partial()
    p["track"] = tracker.export()
    for m in missing:
        p["reach"]["__missing_anchor__:" + m] = 0
        p["notes"]["missing_anchor:" + m] = True
    return ctx, p


def main_check(mod, tier, seed, nproc=None):
    t0 = time.time()
    if nproc is None:
        nproc = 1 if tier == "quick" else min(16, os.cpu_count() or 1)
        nproc = getattr(mod, "NPROC", {}).get(tier, nproc)
    if nproc == 1:
        _, p = run_single_process(mod, tier, seed, 0, 1)
        p["track"] = {q: {"calls": t["calls"], "lines": set(t["lines"]), "lines_total": t["lines_total"]}
                      for q, t in p["track"].items()}
        merged = merge([_prep(p)])
    else:
        work = os.path.join(VERIF, ".work", f"{mod.PID}-{os.getpid()}")
        os.makedirs(work, exist_ok=True)
        procs = []
        for i in range(nproc):
            out = os.path.join(work, f"shard{i}.json")
            cmd = [sys.executable, "-B", "-m", "rv.cli", mod.PID, "--tier", tier, "--seed", str(seed),
                   "--shard", f"{i}/{nproc}", "--out", out]
            procs.append((i, out, subprocess.Popen(cmd, cwd=VERIF, stdout=subprocess.PIPE,
                                                   stderr=subprocess.STDOUT, text=True)))
        partials = []
        shard_fail = []
        deadline = time.time() + getattr(mod, "SHARD_TIMEOUT", 3000)
        for i, out, pr in procs:
            try:
                so, _ = pr.communicate(timeout=max(5.0, deadline - time.time()))
            except subprocess.TimeoutExpired:
                pr.kill()
                so, _ = pr.communicate()
                shard_fail.append(f"shard{i}:timeout")
                continue
            if pr.returncode != 0 or not os.path.exists(out):
                shard_fail.append(f"shard{i}:rc={pr.returncode}")
                print(so[-3000:])
                continue
            with open(out) as f:
                partials.append(_prep(json.load(f)))
        import shutil
        shutil.rmtree(work, ignore_errors=True)
        if tier == "thorough" and getattr(mod, "SUITE", False):
            sp, note = run_suite(mod, seed)
            partials += sp
            partials.append({"monitors": {}, "nt": [], "samples": [], "reach": {"suite-workload-worker-logs": len(sp)},
                             "dropped": {}, "witnesses": [], "mech_counts": {}, "cases_run": {}, "capped": {}, "timeouts": 0,
                             "notes": note, "max_err": {}, "track": {}})
        merged = merge(partials)
        if shard_fail:
            merged["reach"]["__shard_failures__"] = len(shard_fail)
            merged["notes"]["shard_failures"] = shard_fail
            merged["timeouts"] += len(shard_fail)
    return finish(mod, tier, seed, merged, time.time() - t0)


def run_suite(mod, seed):
    """Thorough-tier extra workload (DESIGN §2.5): the repository's own test suite with the property's
    postconditions attached (rv/suite_monitors.py); returns the workers' partial results."""
    import glob
    import shutil
    tests = os.path.join(REPO, "tests")
    if not os.path.isdir(tests):
        return [], {"suite_workload": "skipped: no tests directory under RV_REPO"}
    log = os.path.join(VERIF, ".work", f"suite-{mod.PID}-{os.getpid()}")
    shutil.rmtree(log, ignore_errors=True)
    os.makedirs(log, exist_ok=True)
    env = dict(os.environ, RV_SUITE_PIDS=mod.PID, RV_SUITE_LOG=log, VERIF_SEED=str(seed))
    cmd = [sys.executable, "-B", "-m", "pytest", "-q", "-p", "no:cacheprovider", "-p", "rv.pytest_plugin", "-n",
           str(min(12, os.cpu_count() or 1)), "--timeout=900", "tests", "--deselect", "tests/test_mamba.py"]
    try:
        r = subprocess.run(cmd, cwd=REPO, env=env, capture_output=True, text=True, timeout=3000)
        tail = (r.stdout.strip().splitlines() or ["?"])[-1]
    except subprocess.TimeoutExpired:
        tail = "timeout"
    partials = []
    for f in glob.glob(os.path.join(log, f"{mod.PID}-*.json")):
        with open(f) as fh:
            partials.append(_prep(json.load(fh)))
    shutil.rmtree(log, ignore_errors=True)
    return partials, {"suite_workload": f"repository suite under monitors: {len(partials)} worker logs; pytest said: {tail[:120]}"}


def _prep(p):
    for q, t in p.get("track", {}).items():
        t["lines"] = set(t["lines"])
    return p


def main_shard(mod, tier, seed, shard, nshards, out):
    _, p = run_single_process(mod, tier, seed, shard, nshards)
    for q, t in p["track"].items():
        t["lines"] = sorted(t["lines"])
    with open(out, "w") as f:
        json.dump(p, f)
    return 0


def main_replay(mod, path):
    with open(path) as f:
        w = json.load(f)
    t0 = time.time()
    ctx = Ctx(mod.PID, w["tier"], w["seed"])
    if hasattr(mod, "setup"):
        mod.setup(ctx)
    fam = {f.name: f for f in mod.FAMILIES}[w["family"]]
    run_case(ctx, fam, int(w["k"]), 600.0)
    p = ctx.partial()
    p["track"] = {}
    merged = merge([p])
    return finish(mod, w["tier"], w["seed"], merged, time.time() - t0, replay_mode=True)
