#!/usr/bin/env python3
"""Confirm a seeded breaking change and run the checks against it.
usage: tools/seedtest.py <dir with patch.diff, demo.py, meta.json> [--tier quick|thorough] [--checks C01,C02]
Works on a scratch copy of /repo (outside /repo and /verif), removed afterwards."""
import json, os, shutil, subprocess, sys, tempfile

def main():
    d = os.path.abspath(sys.argv[1])
    tier = "quick"
    checks = None
    for i, a in enumerate(sys.argv):
        if a == "--tier": tier = sys.argv[i + 1]
        if a == "--checks": checks = sys.argv[i + 1].split(",")
    meta = json.load(open(os.path.join(d, "meta.json")))
    pid = meta["property"]
    checks = checks or [pid]
    scratch = tempfile.mkdtemp(prefix="rv_seed_")
    out = {"dir": d, "property": pid}
    try:
        subprocess.check_call(["rsync", "-a", "--exclude", ".git", "/repo/", scratch + "/"])
        env = dict(os.environ, PYTHONPATH=scratch, JAX_PLATFORMS="cpu")
        r0 = subprocess.run(["/venv/bin/python", os.path.join(d, "demo.py")], env=env, capture_output=True, text=True, timeout=1200, cwd=scratch)
        out["demo_unchanged_rc"] = r0.returncode
        ap = subprocess.run(["patch", "-p1", "-i", os.path.join(d, "patch.diff")], cwd=scratch, capture_output=True, text=True)
        out["patch_applies"] = ap.returncode == 0
        if ap.returncode != 0:
            out["patch_err"] = (ap.stdout + ap.stderr)[-400:]
            print(json.dumps(out)); return 2
        r1 = subprocess.run(["/venv/bin/python", os.path.join(d, "demo.py")], env=env, capture_output=True, text=True, timeout=1200, cwd=scratch)
        out["demo_changed_rc"] = r1.returncode
        out["confirmed"] = r0.returncode == 0 and r1.returncode != 0
        res = {}
        for c in checks:
            e2 = dict(os.environ, RV_REPO=scratch)
            r = subprocess.run(["/verif/check", c, "--tier", tier], cwd="/verif", env=e2, capture_output=True, text=True, timeout=7200)
            lines = [l for l in r.stdout.splitlines() if l.startswith(("VIOLATION", "INCONCLUSIVE"))]
            res[c] = {"rc": r.returncode, "lines": [l.split("replay=")[-1].split("/")[-1][:110] for l in lines[:4]]}
        out["checks"] = res
        print(json.dumps(out))
        return 0
    finally:
        shutil.rmtree(scratch, ignore_errors=True)

if __name__ == "__main__":
    sys.exit(main())
