#!/usr/bin/env python3
"""For every 'fixed:' record: revert that fix commit in a scratch copy of /repo and run the property's quick check
with RV_REPO pointing there; the defect must be reported again (exit 1).  Not a registered check."""
import json, os, re, shutil, subprocess, sys, tempfile
from concurrent.futures import ThreadPoolExecutor

def one(rec):
    m = re.match(r"fixed: property=(C\d+) ([0-9a-f]+) (.*)", rec)
    pid, h, what = m.groups()
    d = tempfile.mkdtemp(prefix="rv_revert_")
    try:
        subprocess.check_call(["rsync", "-a", "--exclude", ".git", "/repo/", d + "/"])
        diff = subprocess.check_output(["git", "-C", "/repo", "show", h, "--format=", "--", "skfem"])
        r = subprocess.run(["patch", "-R", "-p1", "--no-backup-if-mismatch"], input=diff, cwd=d, capture_output=True)
        if r.returncode != 0:
            return pid, h, "REVERT-FAILED (later commit touched the same lines)", what[:60]
        e = dict(os.environ, RV_REPO=d)
        c = subprocess.run(["/verif/check", pid], cwd="/verif", env=e, capture_output=True, text=True, timeout=3600)
        lines = [l.split("replay=")[-1].split("/")[-1][:70] for l in c.stdout.splitlines() if l.startswith("VIOLATION")]
        return pid, h, {0: "NOT DETECTED", 1: "detected", 2: "inconclusive"}.get(c.returncode, f"rc={c.returncode}"), "; ".join(lines[:2])
    finally:
        shutil.rmtree(d, ignore_errors=True)

if __name__ == "__main__":
    recs = json.load(open("/verif/known_findings.json"))["fixed"]
    sel = sys.argv[1:]
    if sel:
        recs = [r for r in recs if any(s in r for s in sel)]
    with ThreadPoolExecutor(6) as ex:
        res = list(ex.map(one, recs))
    bad = 0
    for pid, h, verdict, info in res:
        print(f"{pid} {h} {verdict:14s} {info}")
        bad += verdict != "detected"
    print(f"{len(res) - bad}/{len(res)} detected again when reverted")
