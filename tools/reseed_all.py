#!/usr/bin/env python3
"""Re-confirm every kept seeded change against the current /repo: demo passes unchanged, fails with the patch, and
the quick tier of the recorded check(s) reports it.  usage: tools/reseed_all.py [name-prefix ...]"""
import json, os, subprocess, sys
from concurrent.futures import ThreadPoolExecutor

def one(d):
    meta = json.load(open(os.path.join(d, "meta.json")))
    if meta.get("superseded"):
        return os.path.basename(d), "superseded (kept for the record)"
    checks = meta.get("caught_by_quick_tier_of") or [meta["breaks_property"]]
    r = subprocess.run(["python3", "/verif/tools/seedtest.py", d, "--checks", ",".join(checks[:1])],
                       capture_output=True, text=True)
    try:
        res = json.loads(r.stdout.strip().splitlines()[-1])
    except Exception:
        return os.path.basename(d), "ERROR " + (r.stdout + r.stderr)[-200:]
    if not res.get("patch_applies"):
        return os.path.basename(d), "PATCH DOES NOT APPLY"
    if not res.get("confirmed"):
        return os.path.basename(d), "NOT CONFIRMED"
    ok = [c for c, v in res["checks"].items() if v["rc"] == 1]
    return os.path.basename(d), ("caught by " + ",".join(ok)) if ok else "MISSED " + json.dumps({c: v["rc"] for c, v in res["checks"].items()})

if __name__ == "__main__":
    root = "/verif/seeded"
    names = sorted(n for n in os.listdir(root) if os.path.isdir(os.path.join(root, n)))
    if sys.argv[1:]:
        names = [n for n in names if n.startswith(tuple(sys.argv[1:]))]
    bad = 0
    with ThreadPoolExecutor(5) as ex:
        for n, v in ex.map(one, [os.path.join(root, n) for n in names]):
            print(n, v, flush=True)
            bad += not v.startswith(("caught", "superseded"))
    print(f"{len(names) - bad}/{len(names)} ok")
