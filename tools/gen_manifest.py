#!/usr/bin/env python3
"""Regenerates MANIFEST.json from the monitor modules that exist (run from /verif)."""
import importlib, json, os, sys
sys.path.insert(0, os.path.dirname(os.path.dirname(os.path.abspath(__file__))))
os.environ.setdefault("RV_REPO", "/repo")
sys.path.insert(0, os.environ["RV_REPO"])

props = [json.loads(l) for l in open("properties.jsonl")]
claimed = set(open("tools/claimed.txt").read().split())
checks, na = [], []
for p in props:
    pid = p["id"]
    if pid not in claimed:
        na.append({"property_id": pid, "reason": "monitor not finished yet (work in progress; the design in DESIGN.md §4 applies)"})
        continue
    try:
        mod = importlib.import_module("rv.monitors." + pid.lower())
    except ModuleNotFoundError:
        na.append({"property_id": pid, "reason": "monitor not built yet (work in progress; the design in DESIGN.md §4 applies)"})
        continue
    checks.append({
        "property_id": pid,
        "quick_cmd": f"./check {pid} --tier quick",
        "thorough_cmd": f"./check {pid} --tier thorough",
        "evidence_file": f"/verif/evidence/{pid}.json",
        "replay_cmd_template": f"./check {pid} --replay {{path}}",
        "engine": "rv",
        "level_claimed": {"category": "exploration",
                          "text": getattr(mod, "LEVEL_TEXT", "runtime monitors with independent oracles observe the real code on generated workloads; held means: no oracle fired on the executions listed in the evidence"),
                          "design_ref": f"DESIGN.md §4 {pid}"},
        "level_note": getattr(mod, "LEVEL_NOTE", "trusted: NumPy/SciPy, the harness' reference models (rv/exact.py, rv/refmodel); decides only the executions produced"),
        "technique": getattr(mod, "TECHNIQUE", "runtime monitoring: reference-model / relational oracles on executions of the real code"),
    })
man = {
    "version": 1,
    "setup_cmd": "./check --setup",
    "hooks": {"guard": "SKFEM_VERIF", "enable": "no source hooks: all instrumentation is attached from the harness at import time (wrappers, sys.monitoring); checks import /repo's working tree through PYTHONPATH",
              "baseline_off_cmd": "cd /repo && /venv/bin/python -m pytest -ra -q -p no:cacheprovider --timeout=900 --continue-on-collection-errors -n 16 tests",
              "source_commits": [], "add_only": True},
    "engines": [{"name": "rv", "path": "/verif/rv", "serves_properties": [c["property_id"] for c in checks],
                 "kind_free_text": "pure-Python runtime-monitoring framework: seeded hostile workload generators, harness-side monitors with exact/reference-model/relational oracles, sys.monitoring reach tracking, three-valued verdicts"}],
    "checks": checks,
    "notes": "Exit codes: 0 held (KNOWN-FINDING lines possible), 1 VIOLATION, 2 INCONCLUSIVE (a deciding monitor was never reached), 3 framework error. VERIF_SEED and VERIF_TIER are honoured.",
    "not_applicable": na,
}
json.dump(man, open("MANIFEST.json", "w"), indent=1)
print(len(checks), "checks,", len(na), "not yet claimed")
