#!/bin/bash
# usage: tools/sweep.sh [seed] [tier]   -- runs every claimed check, 4 at a time, prints rc per check
cd /verif
SEED=${1:-0}; TIER=${2:-quick}
run() { c=$1; VERIF_SEED=$SEED ./check $c --tier $TIER > /tmp/sweep_${c}_${SEED}_${TIER}.log 2>&1; echo "$c rc=$? $(grep -c '^VIOLATION' /tmp/sweep_${c}_${SEED}_${TIER}.log) viol $(grep -c '^KNOWN' /tmp/sweep_${c}_${SEED}_${TIER}.log) known $(grep -o 'wall=[0-9.]*s' /tmp/sweep_${c}_${SEED}_${TIER}.log | tail -1)"; }
export -f run; export SEED TIER
cat tools/claimed.txt | sort | xargs -P 4 -I{} bash -c 'run {}'
