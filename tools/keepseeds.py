#!/usr/bin/env python3
"""Confirm seeded changes and keep them under /verif/seeded/<id>/ with what was run and which checks caught them.
usage: tools/keepseeds.py Cxx:n[:extra checks comma separated] ..."""
import json, os, shutil, subprocess, sys
from concurrent.futures import ThreadPoolExecutor

def one(spec):
    parts = spec.split(":")
    pid, n = parts[0], parts[1]
    extra = parts[2].split(",") if len(parts) > 2 and parts[2] else []
    rnd = os.environ.get("SEED_ROUND", "")          # "" = first round, "2" = second round ...
    src = f"/tmp/seed{rnd}_{pid}_out/{n}"
    checks = [pid] + extra
    r = subprocess.run(["python3", "/verif/tools/seedtest.py", src, "--checks", ",".join(checks)], capture_output=True, text=True)
    try:
        res = json.loads(r.stdout.strip().splitlines()[-1])
    except Exception:
        return spec, "ERROR " + (r.stdout + r.stderr)[-300:]
    if not res.get("confirmed"):
        return spec, "NOT CONFIRMED " + json.dumps(res)[:300]
    dst = f"/verif/seeded/{pid}-{n}" if not rnd else f"/verif/seeded/{pid}-r{rnd}-{n}"
    os.makedirs(dst, exist_ok=True)
    for f in ("patch.diff", "demo.py"):
        shutil.copy(os.path.join(src, f), os.path.join(dst, f))
    meta = json.load(open(os.path.join(src, "meta.json")))
    caught = [c for c, v in res["checks"].items() if v["rc"] == 1]
    meta.update({
        "breaks_property": pid,
        "confirmed_by_me": "demo.py exits 0 on a scratch copy of /repo and non-zero after `patch -p1 < patch.diff` (tools/seedtest.py)",
        "checks_run": {c: {"exit": v["rc"], "violation_lines": v["lines"]} for c, v in res["checks"].items()},
        "caught_by_quick_tier_of": caught,
    })
    json.dump(meta, open(os.path.join(dst, "meta.json"), "w"), indent=1)
    return spec, ("caught by " + ",".join(caught)) if caught else "MISSED"

if __name__ == "__main__":
    with ThreadPoolExecutor(6) as ex:
        for spec, verdict in ex.map(one, sys.argv[1:]):
            print(spec, verdict)
