#!/usr/bin/env python3
"""Brief for a seeding sub-agent: only the text of one property, its own scratch worktree of /repo and the one-line
descriptions of the changes earlier rounds produced for that property (nothing else from /verif).
usage: tools/mkseedbrief.py <round> Cxx [Cyy ...]   -> /tmp/seedbrief<round>/Cxx.txt (worktree /tmp/seed<round>_Cxx)"""
import json, os, sys

TEMPLATE = """You are helping to evaluate a verification effort for the Python library scikit-fem (kinnala/scikit-fem), a pure-Python finite element assembly library.  Your job is to write realistic *semantic bugs*: small changes to the library that break ONE stated property while the code still imports, and the library's existing test suite still passes.

Your working copy is the git worktree `{wt}` (a detached checkout of the library; work only there; never touch /repo or /verif, never read anything under /verif).  Run Python as `/venv/bin/python` with `PYTHONPATH={wt}` and confirm once with `python -c "import skfem; print(skfem.__file__)"` that the worktree copy is imported.

The property (id {pid}): **{title}**

Statement: {statement}

Quantified over: {quant}

Why the existing tests cannot settle it: {why}

Code it is anchored in: {files}.  Mechanisms meant to make it hold: {mech}.

Earlier rounds already produced the following changes for this property; do NOT repeat these ideas or close variants of them (other code sites, other clauses of the statement, other kinds of trigger are wanted):
{earlier}

Changes that only manifest on input that is not valid for the library (cells that overlap, a non-conforming mesh, an index out of range) do not count: the demonstration must use legitimate input.

Produce THREE independent changes (different mechanisms / code sites / clauses of the property).  For each one, number n = 1, 2, 3, write into `{out}/n/`:
 * `patch.diff` — `git diff` of the change against the worktree's HEAD (apply cleanly with `git apply` at the root of a checkout of the same commit); only files under `skfem/` change; keep it small (a few lines);
 * `demo.py` — a small self-contained program (run as `PYTHONPATH=<checkout> /venv/bin/python demo.py`) that exits 0 on the unchanged library and exits non-zero (assertion) with the change applied, demonstrating the broken property through the public API;
 * `meta.json` — {{"property": "{pid}", "what": "...one paragraph: what the change does and which clause it breaks...", "needs": "...what is needed for it to manifest (which inputs / sequence / configuration)...", "tests_run": "...what you ran and the results..."}}.

Requirements for each change
 * It must be a *wrong result or wrong behaviour*, not a crash at import or on every call.  Prefer bugs that need something specific to manifest — an unusual but legitimate input (a particular mesh numbering or local vertex order, a subset in unsorted order, an empty row, rectangular trial/test spaces, data of unusual magnitude or dtype, a second-order or curved mesh, a particular element family or degree, complex dtype, more threads than work items, a multi-step sequence of operations, reuse of an object, two cooperating code sites that each look fine alone) — rather than ones that any ordinary use would expose at once.  The kind of mistake a maintainer could plausibly make in a refactoring (wrong index/axis/sign/offset, a dropped copy or sort, a stale cache key, an off-by-one, a tolerance, a missing case).
 * The library's own test suite must still pass with the change: run the test files that touch the changed code, and finally the complete suite once with `cd {wt} && /venv/bin/python -m pytest -q -p no:cacheprovider -x --timeout=900 -n 4 tests --deselect tests/test_mamba.py` (tests/test_mamba.py fails regardless: ignore it).  If a test fails, make the change subtler or choose another one.
 * Verify your demo both ways (with and without the change; use `git diff > patch.diff`, `git apply -R` and `git apply` in YOUR worktree; do NOT use `git stash`, the stash stack is shared between worktrees) and leave the worktree clean (`git checkout -- .`) at the end, with the three patches only in the output directory.

Final message: list the three changes in one line each and confirm what you verified."""


def main():
    rnd = sys.argv[1]
    props = {json.loads(l)["id"]: json.loads(l) for l in open("/verif/properties.jsonl")}
    os.makedirs(f"/tmp/seedbrief{rnd}", exist_ok=True)
    for pid in sys.argv[2:]:
        p = props[pid]
        earlier = []
        for n in sorted(os.listdir("/verif/seeded")):
            if n.split("-")[0] != pid:
                continue
            try:
                w = " ".join(str(json.load(open(f"/verif/seeded/{n}/meta.json")).get("what", "")).split())
            except Exception:
                continue
            earlier.append("- " + w[:260])
        a = p["anchors"]
        text = TEMPLATE.format(wt=f"/tmp/seed{rnd}_{pid}", out=f"/tmp/seed{rnd}_{pid}_out", pid=pid, title=p["title"],
                               statement=p["statement"], quant=p["quantifier"]["text"], why=p["why_tests_cant"],
                               files=", ".join(a["files"]),
                               mech="; ".join(f"{m['name']} ({m['where']})" for m in a["mechanism"]),
                               earlier="\n".join(earlier))
        open(f"/tmp/seedbrief{rnd}/{pid}.txt", "w").write(text)
        print(pid, len(earlier), "earlier changes")


if __name__ == "__main__":
    main()
