#!/usr/bin/env python3
"""Markdown rows (id | what the change does | quick checks that report it) for the kept seeded changes of one round.
usage: tools/seed_table.py r4"""
import json, os, sys
rnd = sys.argv[1] if len(sys.argv) > 1 else ""
root = "/verif/seeded"
for n in sorted(os.listdir(root)):
    parts = n.split("-")
    r = parts[1] if len(parts) == 3 else ""
    if r != rnd:
        continue
    m = json.load(open(os.path.join(root, n, "meta.json")))
    what = " ".join(str(m.get("what", "")).split())[:150].replace("|", "/")
    caught = ", ".join(m.get("caught_by_quick_tier_of", [])) or "(missed)"
    if m.get("not_counted"):
        caught = "(not counted, see text)"
    print(f"| {n} | {what} | {caught} |")
