#!/usr/bin/env python3
"""Sensitivity self-test (not a registered check): applies one textual mutant at a time to a scratch copy of
skfem/ (outside /repo and /verif), runs the quick check of the property with RV_REPO pointing there and
expects exit 1 (VIOLATION).  Usage: selftest/run.py [PID ...] [--jobs N]"""
import json, os, shutil, subprocess, sys, tempfile
from concurrent.futures import ThreadPoolExecutor

HERE = os.path.dirname(os.path.abspath(__file__))
VERIF = os.path.dirname(HERE)
REPO = "/repo"


def run_one(m):
    d = tempfile.mkdtemp(prefix="rv_mut_")
    try:
        shutil.copytree(os.path.join(REPO, "skfem"), os.path.join(d, "skfem"))
        path = os.path.join(d, m["file"])
        s = open(path).read()
        if s.count(m["old"]) < 1:
            return m, "STALE (pattern not found)", ""
        s = s.replace(m["old"], m["new"], 1 if not m.get("all") else -1)
        open(path, "w").write(s)
        env = dict(os.environ, RV_REPO=d)
        cmd = [os.path.join(VERIF, "check"), m["property"]] + m.get("args", [])
        r = subprocess.run(cmd, cwd=VERIF, env=env, capture_output=True, text=True, timeout=1200)
        lines = [l for l in r.stdout.splitlines() if l.startswith(("VIOLATION", "INCONCLUSIVE"))]
        verdict = {0: "SURVIVED", 1: "caught", 2: "inconclusive"}.get(r.returncode, f"rc={r.returncode}")
        return m, verdict, "; ".join(l.split("replay=")[-1].split("/")[-1] for l in lines[:3])
    finally:
        shutil.rmtree(d, ignore_errors=True)


def main():
    args = [a for a in sys.argv[1:] if not a.startswith("--")]
    jobs = 8
    for a in sys.argv[1:]:
        if a.startswith("--jobs"):
            jobs = int(a.split("=")[1])
    muts = json.load(open(os.path.join(HERE, "mutants.json")))
    if args:
        muts = [m for m in muts if m["property"] in args or m["id"] in args]
    with ThreadPoolExecutor(jobs) as ex:
        res = list(ex.map(run_one, muts))
    bad = 0
    for m, verdict, info in res:
        print(f"{m['property']} {m['id']:40s} {verdict:12s} {info}")
        bad += verdict != "caught"
    print(f"{len(res) - bad}/{len(res)} caught")
    return 1 if bad else 0


if __name__ == "__main__":
    sys.exit(main())
